"""./check <property> [--tier quick|thorough] [--replay file]

Exit codes: 0 all obligations of the property discharged (KNOWN-FINDING lines possible);
1 a VIOLATION line was printed; 2 undecided; 3 checker failure.
"""
import argparse
import hashlib
import json
import os
import subprocess
import sys
import time
from multiprocessing import Pool

ROOT = os.path.dirname(os.path.dirname(os.path.abspath(__file__)))
# experiments may redirect replay files (parallel runs of one property): the default is /verif/replays
REPLAYS = os.environ.get("VERIF_REPLAY_DIR") or os.path.join(ROOT, "replays")
sys.path.insert(0, ROOT)
from checker import jobs as J  # noqa: E402


def _run(args):
    job, timeout_ms, seed = args
    return J.run_job(job, timeout_ms=timeout_ms, seed=seed)


def load_known():
    p = os.path.join(ROOT, "known_findings.json")
    if not os.path.exists(p):
        return []
    with open(p) as fh:
        return json.load(fh)


def finding_matches(entry, prop, ob):
    if entry.get("status") != "finding" or entry.get("property") != prop:
        return False
    import re
    if "obligation_regex" in entry:
        if not re.fullmatch(entry["obligation_regex"], ob["name"]):
            return False
    elif entry.get("obligation") != ob["name"]:
        return False
    if "witness_regex" in entry and not re.search(entry["witness_regex"], ob.get("detail") or ""):
        return False
    site = entry.get("site")
    if site and site not in (ob.get("site") or ""):
        return False
    wit = entry.get("witness_contains")
    if wit and wit not in (ob.get("detail") or ""):
        return False
    return True


def main(argv=None):
    ap = argparse.ArgumentParser()
    ap.add_argument("prop")
    ap.add_argument("--tier", default=os.environ.get("VERIF_TIER", "quick"))
    ap.add_argument("--replay")
    ap.add_argument("--procs", type=int, default=int(os.environ.get("VERIF_PROCS", "16")))
    ap.add_argument("--verbose", action="store_true")
    ap.add_argument("--only", help="(debugging) restrict to jobs whose name matches this regex; "
                    "the run is then reported as undecided, never as passed")
    a = ap.parse_args(argv)
    seed = int(os.environ.get("VERIF_SEED", "0") or 0)
    prop = a.prop
    if a.replay:
        from replay import run_replay
        return run_replay.main(a.replay)
    t0 = time.time()
    from props import table
    if prop not in table.PROPS:
        print(f"property {prop} is not claimed (see MANIFEST.json not_applicable)")
        return 2
    tier = a.tier if a.tier in ("quick", "thorough") else "quick"
    timeout_ms = 20000 if tier == "quick" else 120000
    all_fn = J.all_function_jobs()
    jobs = table.jobs_for(prop, all_fn, tier)
    if a.only:
        import re
        jobs = [j for j in jobs if re.search(a.only, " ".join(map(str, j)))]
    results = []
    with Pool(min(a.procs, max(1, len(jobs)))) as pool:
        for r in pool.imap_unordered(_run, [(j, timeout_ms, seed) for j in jobs]):
            results.append(r)
            if a.verbose:
                print(f"  job {r['job']}: paths={r['paths']} obligations={len(r['obligations'])} "
                      f"{r['wall']:.1f}s {r['undecided'] or ''} {'ERROR' if r['error'] else ''}",
                      flush=True)
    return conclude(prop, tier, seed, results, t0, a)


def conclude(prop, tier, seed, results, t0, a):
    from props import table
    from vc import sorts as T
    errors = [r for r in results if r["error"]]
    undecided = [r for r in results if r["undecided"]]
    obs = []
    infos = []
    for r in results:
        for ob in r["obligations"]:
            if ob["status"] == "info":
                infos.append(ob)
            elif table.selects(prop, ob):
                obs.append(ob)
    if table.PROPS[prop].get("derived"):
        from props import locksets
        obs += locksets.derive(prop, table.PROPS[prop]["derived"], infos, ROOT)
    # one obligation = one (name, site); it is discharged when it is discharged on every path
    groups = {}
    for ob in obs:
        groups.setdefault((ob["name"], ob["site"]), []).append(ob)
    discharged = [k for k, v in groups.items() if all(o["status"] == "discharged" for o in v)]
    refuted = {k: [o for o in v if o["status"] == "refuted"] for k, v in groups.items()
               if any(o["status"] == "refuted" for o in v)}
    unknown = [k for k, v in groups.items() if any(o["status"] == "unknown" for o in v)
               and k not in refuted]
    known = load_known()
    lines = []
    violations = []
    known_reported = []
    spurious = []
    os.makedirs(REPLAYS, exist_ok=True)
    for key, bad in sorted(refuted.items()):
        # every refuted path of the obligation must be covered by a listed finding; a refutation
        # at another site or with another witness is reported as a violation
        rest = []
        for o in bad:
            ent = next((e for e in known if finding_matches(e, prop, o)), None)
            if ent is None:
                rest.append(o)
            else:
                line = f"KNOWN-FINDING: property={prop} {ent['what']}"
                if line not in lines:
                    lines.append(line)
                rec = {"obligation": o["name"], "site": o["site"], "what": ent["what"]}
                if rec not in known_reported:
                    known_reported.append(rec)
        if not rest:
            continue
        bad = rest
        ob = bad[0]
        from replay import concretize
        verdict, path = concretize.replay_refutation(prop, ob, bad, ROOT)
        if verdict == "spurious":
            spurious.append({"obligation": ob["name"], "site": ob["site"], "replay": path})
            continue
        tail = "" if verdict == "reproduced" else " no-failing-input-found"
        lines.append(f"VIOLATION property={prop} replay={path}{tail}")
        violations.append({"obligation": ob["name"], "site": ob["site"], "detail": ob["detail"],
                           "replay": path, "verdict": verdict})
    standins = []
    if tier == "thorough" and not a.only:
        from replay import concretize
        for oracle, params in BOUNDED.get(prop, []):
            key = hashlib.sha256((prop + oracle + json.dumps(params, sort_keys=True)).encode()).hexdigest()[:10]
            path = os.path.join(REPLAYS, f"{prop}-bounded-{oracle}-{key}.json")
            sc = {"property": prop, "obligation": f"bounded/{oracle}", "site": "native bounded search",
                  "config": concretize.DEFAULT_CFG, "oracle": oracle, "params": params,
                  "verdict": None, "observed": None,
                  "note": "bounded native search over the real code (labelled bounded, not a proof)"}
            with open(path, "w") as fh:
                json.dump(sc, fh, indent=1)
            res = concretize.run_driver(path, ROOT)
            sc["verdict"] = "reproduced" if res.get("reproduced") is True else \
                ("passed" if res.get("reproduced") is False else "driver-error")
            sc["observed"] = res.get("observed")
            with open(path, "w") as fh:
                json.dump(sc, fh, indent=1)
            standins.append({"oracle": oracle, "params": params, "result": sc["verdict"],
                             "observed": (sc["observed"] or "")[:200], "bounded": True})
            if res.get("reproduced") is True:
                lines.append(f"VIOLATION property={prop} replay={path}")
                violations.append({"obligation": f"bounded/{oracle}", "site": "native bounded search",
                                   "detail": sc["observed"], "replay": path, "verdict": "reproduced"})
    n_ob = len(groups)
    n_dis = len(discharged)
    wall = time.time() - t0
    level = manifest_level(prop)    # the level claimed in MANIFEST.json for this property
    locksets = {}
    if table.PROPS[prop].get("derived"):
        from props import locksets as LS
        locksets = LS.snapshot({table.PROPS[prop]["derived"]: infos})
    fault_sites = sorted({(o["name"].split("/")[1], (o["detail"] or "").split("after ")[-1][:80])
                          for o in obs if o["name"].startswith("fault[")
                          and "no fault" not in (o["detail"] or "")})
    exit_code = 0
    reason = ""
    if errors:
        exit_code, reason = 3, "checker error: " + errors[0]["error"].strip().splitlines()[-1]
    elif violations:
        exit_code = 1
    elif undecided or unknown or spurious or n_ob == 0:
        exit_code = 2
        reason = "; ".join(
            [f"undecided job {r['job']}: {r['undecided']}" for r in undecided][:3]
            + [f"solver unknown on {k[0]} at {k[1]}" for k in unknown][:3]
            + [f"spurious counterexample for {s['obligation']}" for s in spurious][:3]
            + (["no obligation generated"] if n_ob == 0 else []))
    if a.only and exit_code == 0:
        exit_code, reason = 2, "partial run (--only)"
    # vacuity guard: the contract-level obligations (refinement clauses, lemmas, layout, scenario
    # clauses) must not be fewer than on the unchanged tree; call-site obligations are not counted
    # because a harmless refactoring may add or remove call sites
    import re as _re
    core = [k for k in groups if _re.search(r"/post/|^lemma/|/layout/|^steps/|^fault\[|^main/|^C\d\d/",
                                           k[0])]
    n_core = len(core)
    baseline = load_baseline().get(prop)
    if exit_code == 0 and baseline and n_core < baseline.get("core_obligations", 0) \
            and not os.environ.get("VERIF_NO_BASELINE"):
        exit_code = 2
        reason = (f"only {n_core} contract-level obligations generated, the committed baseline has "
                  f"{baseline['core_obligations']}: a contract no longer attaches")
    fn_jobs = sorted({tuple(r["job"][:3]) for r in results})
    hashes = {}
    for r in results:
        for q, h in r["hashes"].items():
            hashes[q] = h
    under_contract = sorted({r["job"][1] for r in results if r["job"][0] == "fn"})
    samples = []
    for k in list(groups)[:3]:
        o = groups[k][0]
        samples.append({"obligation": o["name"], "site": o["site"], "paths": len(groups[k]),
                        "result": o["status"], "time_s": o["time"], "detail": o["detail"][:120]})
    for v in violations[:3]:
        samples.append({"violation": v})
    evidence = {
        "property_id": prop, "tier": tier, "seed": seed, "level": level,
        "source": dict(source_state(), partial=bool(a.only)),
        "wall_s": round(wall, 2), "violations": len(violations),
        "coverage": {
            "obligations": n_ob, "discharged": n_dis + len(known_reported) * 0,
            "core_obligations": n_core,
            "checker_cmd": f"./check {prop} --tier {tier}",
            "trusted_base": sorted(T.TRUSTED),
            "trusted_base_text": T.TRUSTED,
            "functions_under_contract": {q: hashes.get(q, "?") for q in under_contract},
            "jobs": len(results), "paths": sum(r["paths"] for r in results),
            "path_obligation_checks": len(obs),
            "backends": {"z3": len(obs), "cvc5": 0},
            "solver_time_s": round(sum(r["solver_time"] for r in results), 2),
            "solver_calls": sum(r["solver_calls"] for r in results),
            "slow_obligations": sorted({o["name"] for o in obs if o["time"] > 5.0}),
            "unknown_branch_checks": sum(r["unknown_branches"] for r in results),
            "inlined_without_contract": sorted({q for r in results for q in r["inlined"]}),
            "lemmas": sorted(r["job"][1] for r in results if r["job"][0] == "lemma"),
            "refuted": [{"obligation": k[0], "site": k[1]} for k in refuted],
            "known_findings_reported": known_reported,
            "undecided": reason,
            "outcomes_covered": {f"{r['job'][1]}[{r['job'][2]}]": r["outcomes"]
                                 for r in results if r["job"][0] == "fn"},
            "samples": samples,
            "bounded_standins": standins,
            "lock_sets_at_access_sites": locksets,
            "evaluations": len(obs),
            "distinct_nontrivial": (len(fault_sites) if prop == "C13" else n_ob),
            "rule": ("one execution = one symbolic path of a fully inlined call with one injected "
                     "OSError at one fault site (one-off or persistent); distinct = distinct "
                     "(scenario, fault site) pairs at which a failure was injected"
                     if prop == "C13" else
                     "one evaluation = one proof obligation checked on one symbolic path; "
                     "distinct = distinct named obligations (name, site)"),
            "fault_sites": [list(x) for x in fault_sites][:400],
            "explanation": "contract-based deductive verification: every real function body in "
                           "the property's dependency cone is symbolically executed from the "
                           "current source and checked against its sidecar contract; the "
                           "property itself is a set of lemmas over those contracts; see "
                           "DESIGN.md",
        },
        "assumptions": ASSUMPTIONS,
    }
    # experiments on changed sources (tools/run_seeded.py, HASHSTORE_SRC) write their evidence to a
    # directory of their own so that the committed evidence always describes the unchanged tree
    evdir = os.environ.get("VERIF_EVIDENCE_DIR") or os.path.join(ROOT, "evidence")
    os.makedirs(evdir, exist_ok=True)
    with open(os.path.join(evdir, f"{prop}.json"), "w") as fh:
        json.dump(evidence, fh, indent=1, default=str)
    for l in lines:
        print(l)
    print(f"{prop}: obligations={n_ob} discharged={n_dis} refuted={len(refuted)} "
          f"unknown={len(unknown)} jobs={len(results)} paths={evidence['coverage']['paths']} "
          f"wall={wall:.1f}s exit={exit_code} {reason}")
    return exit_code


# thorough tier only: bounded native searches over the real code with the property-level oracles
# of replay/driver.py (labelled bounded in the evidence, never counted as discharged obligations)
SW = {"length": 3, "focus": ["tag", "delete", "store"]}
BOUNDED = {
    "C01": [("store_roundtrip", {"kind": k, "offset": 2}) for k in ("str", "Path", "file", "BytesIO")]
    + [("model_sweep", SW)],
    "C02": [("digest_history", {}), ("digest_keys_independent", {"first": {"additional_algorithm": "sha3_256"}}),
            ("digest_keys_independent", {"first": {"checksum_algorithm": "blake2s", "checksum": "00"}})],
    "C03": [("model_sweep", SW)],
    "C04": [("model_sweep", SW)],
    "C05": [("model_sweep", SW), ("delete_total", {"state": "object-missing"}), ("refs_helper_pool", {})],
    "C06": [("verdict_matrix", {})],
    "C07": [("race_wakeup", {"class": "cid"}), ("race_wakeup", {"class": "pid"})],
    "C08": [("race_same_pid_store", {}), ("race_delete_all_metadata", {})]
    + [("fault_call", {"scenario": sc, "prim": pr, "target": tg, "persistent": False})
       for sc, pr, tg in (("delete_object: sole reference", "move", "pidref-marked"),
                          ("delete_object: sole reference", "remove", "pidref-marked"),
                          ("delete_object: shared object", "move", "pidref-marked"),
                          ("store_metadata: overwrite", "move", "meta"),
                          ("delete_metadata: all documents", "move", "meta-marked"))],
    "C09": [("observe_steps", {})],
    "C10": [("crash_recover", {}), ("refs_helper_pool", {})],
    "C11": [("model_sweep", {"length": 3, "metadata": True, "focus": ["smeta", "dmeta"],
                             "pids": ["pid-a", "pid-b"]}),
            ("model_sweep", {"length": 4, "metadata": True, "contents": 1, "no_tag": True,
                             "require_all": ["smeta", "delete"], "pids": ["pid-a", "pid-b"]})],
    "C12": [("race_delete_all_metadata", {}), ("race_store_meta_delete_all", {}),
            ("metadata_exclusion", {}), ("race_meta_pause", {})],
    "C13": [("fault_call", {"scenario": sc, "prim": pr, "target": tg, "persistent": per})
            for per in (False, True)
            for sc, pr, tg in (("store_metadata: overwrite", "move", "meta"),
                               ("store_metadata: new document", "move", "meta"),
                               ("tag_object: additional pid of the cid", "move", "pidref"),
                               ("tag_object: first pid of the cid", "move", "cidref"),
                               ("store_object: duplicate content, additional pid", "move", "pidref"),
                               ("delete_object: sole reference", "remove", "obj-marked"))],
    "C14": [("config_matrix", {})],
    "C15": [("model_sweep", {"length": 3, "focus": ["store", "tag"], "metadata": True,
                             "pids": ["pid-a", "dir/pid b".replace(" ", "_")]})],
    "C16": [("mp_mode", {}), ("mp_fork_wait", {}), ("race_wakeup", {"class": "cid", "mp": True})],
    "C17": [("reject_matrix", {})],
    "C18": [("model_sweep", {"length": 3, "focus": ["delete", "tag"],
                             "pids": ["../../etc/passwd", "passwd", "../../etc/PASSWD"]}),
            ("identifier_pool", {})],
    "C19": [("verdict_matrix", {})],
    "C20": [("client_matrix", {})],
}


def manifest_level(prop):
    try:
        with open(os.path.join(ROOT, "MANIFEST.json")) as fh:
            for c in json.load(fh)["checks"]:
                if c["property_id"] == prop:
                    return c["level_claimed"]["category"]
    except Exception:
        pass
    return "proof"


def load_baseline():
    p = os.path.join(ROOT, "baseline_obligations.json")
    if os.path.exists(p):
        with open(p) as fh:
            return json.load(fh)
    return {}


def source_state():
    """Which sources this run verified: the working tree of /repo (with its HEAD and whether it has
    uncommitted changes) or an experiment directory.  tools/gen_baseline.py only accepts evidence
    of a clean /repo."""
    import subprocess
    src = os.environ.get("HASHSTORE_SRC")

    def git(*a):
        try:
            return subprocess.run(["git", "-C", "/repo"] + list(a), capture_output=True,
                                  text=True, timeout=30).stdout.strip()
        except Exception:      # noqa: BLE001 - evidence only
            return "?"
    return {"dir": src or "/repo/src/hashstore", "experiment": bool(src),
            "repo_head": git("rev-parse", "--short", "HEAD"),
            "repo_dirty": bool(git("status", "--porcelain", "--", "src")),
            "partial": False}


ASSUMPTIONS = [
    "the engine interprets the Python subset used by the functions under contract as the "
    "language reference defines it (DESIGN 2.2); unsupported constructs make a run undecided",
    "no monkey-patching / subclass overriding of the methods under contract",
    "building a log or exception message never raises and has no side effect; logging calls are "
    "dropped without evaluating their arguments",
    "library primitives obey the contracts of vc/lib.py, vc/lib2.py (complete list: trusted_base)",
    "hash collision-freedom of the store algorithm (including MD5/SHA-1 stores)",
    "rename (shutil.move within one file system) is atomic; temporary and permanent areas are on "
    "one file system",
    "no file of the working directory is named like a hex digest or like a sharded path "
    "(cwd-relative fallbacks of the object lookup): assumed only by the contracts of _find_object, "
    "_delete_object_only, _get_hashstore_data_object_path, _exists, _delete and by the lemmas / "
    "scenarios that use them; every other function body is verified without it",
    "history induction: base case (lemma/fresh-store) and step cases (lemma/<call>/inv-*) are "
    "obligations of C05; the induction principle that lifts them to every finite call sequence is "
    "stated in DESIGN, not machine-checked",
    "module-level constants are evaluated at each use (immutable values only); decorators other "
    "than staticmethod/classmethod/property/contextmanager/lru_cache make a run undecided",
    "no asynchronous exceptions (KeyboardInterrupt, MemoryError)",
]

if __name__ == "__main__":
    sys.exit(main())
