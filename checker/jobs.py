"""Job execution: one job = one (function, argument scenario) refinement check, or one lemma."""
import os
import sys
import time
import traceback

ROOT = os.path.dirname(os.path.dirname(os.path.abspath(__file__)))
sys.path.insert(0, ROOT)
REPO_SRC = os.environ.get("HASHSTORE_SRC", "/repo/src/hashstore")
SOURCES = {"filehashstore": os.path.join(REPO_SRC, "filehashstore.py"),
           "hashstoreclient": os.path.join(REPO_SRC, "hashstoreclient.py")}


def load():
    from vc.engine import Engine
    from vc.lib2 import DirLoopLib
    from contracts import common
    import contracts.checkers, contracts.leaf, contracts.refs, contracts.objects, contracts.meta  # noqa
    import contracts.init  # noqa
    import contracts.rollback  # noqa
    return Engine, DirLoopLib, common


def all_function_jobs():
    Engine, Lib, common = load()
    out = []
    for q, con in common.REGISTRY.items():
        for case in con.cases:
            out.append(("fn", q, case))
    return out


def run_job(job, timeout_ms=20000, seed=0, mode=None):
    """Runs in a worker process.  Returns a picklable dictionary."""
    t0 = time.time()
    kind = job[0]
    full_job = job
    res = {"job": job, "obligations": [], "paths": 0, "outcomes": {}, "error": None,
           "undecided": None, "solver_time": 0.0, "solver_calls": 0, "unknown_branches": 0,
           "inlined": [], "hashes": {}}
    try:
        from vc.values import Undecided
        Engine, Lib, common = load()
        eng = Engine(SOURCES, timeout_ms=timeout_ms, seed=seed)
        if isinstance(job[-1], tuple) and job[-1] and job[-1][0] == "shard":
            eng.shard = (job[-1][1], job[-1][2], job[-1][3] if len(job[-1]) > 3 else 0)
            job = job[:-1]
        eng.contracts = dict(common.REGISTRY)
        lib = Lib()
        try:
            if kind == "fn":
                from vc.contract import verify_case
                con = common.REGISTRY[job[1]]
                if job[1] not in eng.funcs:
                    raise Undecided(f"function {job[1]} not found in the source: its contract "
                                    "cannot be attached")
                kw = {}
                if mode:
                    from props import modes
                    kw = modes.setup(mode, eng, lib)
                done = verify_case(eng, lib, con, job[2], con.cases[job[2]], **kw)
                for d in done:
                    res["outcomes"][d["outcome"]] = res["outcomes"].get(d["outcome"], 0) + 1
            elif kind == "lemma":
                from props import lemmas
                done = lemmas.run(eng, lib, job[1])
            elif kind == "steps":
                from props import scenarios
                done = scenarios.run_steps(eng, lib, job[1])
                for d in done:
                    res["outcomes"][d["outcome"]] = res["outcomes"].get(d["outcome"], 0) + 1
            elif kind == "fault":
                from props import scenarios
                done = scenarios.run_fault(eng, lib, job[1], job[2] == "persistent")
                for d in done:
                    res["outcomes"][d["outcome"]] = res["outcomes"].get(d["outcome"], 0) + 1
            elif kind == "special":
                from props import special
                done = special.run(eng, lib, job[1], tier=job[2] if len(job) > 2 else "quick")
            else:
                raise RuntimeError(f"unknown job kind {kind}")
        except Undecided as u:
            res["undecided"] = str(u)
        res["paths"] = eng.paths
        res["solver_time"] = eng.solver_time
        res["solver_calls"] = eng.solver_calls
        res["unknown_branches"] = eng.unknown_branches
        res["inlined"] = sorted(eng.inlined)
        res["hashes"] = dict(eng.src_hash)
        for ob in eng.results:
            res["obligations"].append({
                "name": ob.name, "status": ob.status, "time": round(ob.time, 4),
                "detail": ob.detail, "site": ob.site, "props": list(ob.props),
                "model": ob.model, "path": ob.path, "job": list(job)})
    except Exception:
        res["error"] = traceback.format_exc()
    res["wall"] = time.time() - t0
    return res
