"""Writes baseline_obligations.json and baseline_locksets.json from the evidence files of a full
quick run on the unchanged tree (run the checks first)."""
import glob
import json
import os

ROOT = os.path.dirname(os.path.dirname(os.path.abspath(__file__)))
base, locks = {}, {}
for f in sorted(glob.glob(os.path.join(ROOT, "evidence", "C*.json"))):
    e = json.load(open(f))
    if e.get("tier") != "quick":
        continue
    base[e["property_id"]] = {"obligations": e["coverage"]["obligations"],
                              "core_obligations": e["coverage"].get("core_obligations", 0)}
    for k, v in (e["coverage"].get("lock_sets_at_access_sites") or {}).items():
        locks[k] = v
json.dump(base, open(os.path.join(ROOT, "baseline_obligations.json"), "w"), indent=1)
json.dump(locks, open(os.path.join(ROOT, "baseline_locksets.json"), "w"), indent=1)
print(base)
