"""Writes baseline_obligations.json and baseline_locksets.json from the evidence files of a full
quick run on the unchanged tree (run the checks first)."""
import glob
import json
import os

ROOT = os.path.dirname(os.path.dirname(os.path.abspath(__file__)))
base, locks = {}, {}
for f in sorted(glob.glob(os.path.join(ROOT, "evidence", "C*.json"))):
    e = json.load(open(f))
    if e.get("tier") != "quick":
        continue
    src = e.get("source") or {}
    assert src and not src.get("experiment") and not src.get("repo_dirty") and not src.get("partial") \
        and e.get("violations", 0) == 0, \
        f"{f}: not the evidence of a complete clean run on the committed /repo tree: {src}"
    base[e["property_id"]] = {"obligations": e["coverage"]["obligations"],
                              "core_obligations": e["coverage"].get("core_obligations", 0)}
    for k, v in (e["coverage"].get("lock_sets_at_access_sites") or {}).items():
        locks[k] = v
json.dump(base, open(os.path.join(ROOT, "baseline_obligations.json"), "w"), indent=1)
json.dump(locks, open(os.path.join(ROOT, "baseline_locksets.json"), "w"), indent=1)
print(base)
