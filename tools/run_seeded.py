"""Runs the registered checks against every seeded change under /verif/seeded.

For each S-<property>-<n>/: `git -C /repo apply patch.diff`, run `./check <property>` (quick tier,
baseline count check off because a seeded change may legitimately remove obligations), record exit
code, VIOLATION lines and replay verdicts in meta.json, then `git -C /repo checkout -- .`.
The repository is never committed to.  Usage: python3 tools/run_seeded.py [S-C03-1 ...]
"""
import glob
import json
import os
import re
import subprocess
import sys

ROOT = os.path.dirname(os.path.dirname(os.path.abspath(__file__)))
import tempfile
EVDIR = tempfile.mkdtemp(prefix="seeded-evidence-")   # never the committed evidence directory
EXTRA = {"S-C04-2": ["C07"]}     # a change meant for one property that only a sibling can see


def sh(cmd, **kw):
    return subprocess.run(cmd, shell=True, capture_output=True, text=True, **kw)


def main():
    ids = sys.argv[1:] or sorted(os.path.basename(d) for d in glob.glob(os.path.join(ROOT, "seeded", "S-*")))
    assert sh("git -C /repo status --porcelain").stdout.strip() == "", "repo not clean"
    for sid in ids:
        d = os.path.join(ROOT, "seeded", sid)
        prop = sid.split("-")[1]
        meta_p = os.path.join(d, "meta.json")
        meta = json.load(open(meta_p)) if os.path.exists(meta_p) else {}
        meta.update({"id": sid, "breaks_property": prop,
                     "origin": "written by an independent sub-agent that was given only the "
                               "property text and a scratch worktree of /repo",
                     "needs": open(os.path.join(d, "notes.txt")).read().strip()[:1500]})
        runs = []
        for p in [prop] + EXTRA.get(sid, []):
            for f in glob.glob(os.path.join(ROOT, "replays", f"{p}-*.json")):
                os.remove(f)
            assert sh(f"git -C /repo apply {d}/patch.diff").returncode == 0, sid
            try:
                r = sh(f"cd {ROOT} && VERIF_NO_BASELINE=1 VERIF_EVIDENCE_DIR={EVDIR} ./check {p}", timeout=3000)
            finally:
                sh("git -C /repo checkout -- .")
            lines = [l for l in r.stdout.splitlines() if l.startswith("VIOLATION")]
            replays = []
            for f in sorted(glob.glob(os.path.join(ROOT, "replays", f"{p}-*.json"))):
                j = json.load(open(f))
                replays.append({"obligation": j["obligation"], "site": j.get("site"),
                                "verdict": j["verdict"], "observed": (j.get("observed") or "")[:300]})
            runs.append({"check": f"./check {p}", "exit": r.returncode,
                         "violations": len(lines), "summary": r.stdout.strip().splitlines()[-1][:200],
                         "replays": replays})
            print(sid, p, "exit", r.returncode, len(lines), "violation lines",
                  [x["verdict"] for x in replays], flush=True)
        meta["ran"] = runs
        meta["caught"] = any(x["exit"] == 1 for x in runs)
        json.dump(meta, open(meta_p, "w"), indent=1)
    assert sh("git -C /repo status --porcelain").stdout.strip() == ""


main()
