"""Runs the registered checks against every seeded change under /verif/seeded.

Default mode, for each S-<property>-<n>/: `git -C /repo apply patch.diff`, run `./check <property>`
(quick tier, baseline count check off because a seeded change may legitimately remove obligations),
record exit code, VIOLATION lines and replay verdicts in meta.json, then `git -C /repo checkout -- .`.
The repository is never committed to.

--copies N: the same runs, N at a time, each on a scratch copy of /repo's HEAD with the patch applied
(`HASHSTORE_SRC=<copy>/src/hashstore`: engine, native replay and cross-check all read that copy), with
its own replay and evidence directories; /repo is not touched.

Usage: python3 tools/run_seeded.py [--copies N] [S-C03-1 ...]
"""
import glob
import json
import os
import shutil
import subprocess
import sys
import tempfile
from concurrent.futures import ThreadPoolExecutor

ROOT = os.path.dirname(os.path.dirname(os.path.abspath(__file__)))
EVDIR = tempfile.mkdtemp(prefix="seeded-evidence-")   # never the committed evidence directory
EXTRA = {"S-C04-2": ["C07"], "S-C11-4": ["C13", "C12", "C09"]}     # a change meant for one property that only a sibling can see


def sh(cmd, **kw):
    return subprocess.run(cmd, shell=True, capture_output=True, text=True, **kw)


def collect(p, r, rdir):
    lines = [l for l in r.stdout.splitlines() if l.startswith("VIOLATION")]
    replays = []
    for f in sorted(glob.glob(os.path.join(rdir, f"{p}-*.json"))):
        j = json.load(open(f))
        replays.append({"obligation": j["obligation"], "site": j.get("site"),
                        "verdict": j["verdict"], "observed": (j.get("observed") or "")[:300]})
    return {"check": f"./check {p}", "exit": r.returncode, "violations": len(lines),
            "summary": (r.stdout.strip().splitlines() or [""])[-1][:200], "replays": replays}


def run_in_repo(sid, d, p):
    rdir = os.path.join(ROOT, "replays")
    for f in glob.glob(os.path.join(rdir, f"{p}-*.json")):
        os.remove(f)
    assert sh(f"git -C /repo apply {d}/patch.diff").returncode == 0, sid
    try:
        r = sh(f"cd {ROOT} && VERIF_NO_BASELINE=1 VERIF_EVIDENCE_DIR={EVDIR} ./check {p}", timeout=3000)
    finally:
        sh("git -C /repo checkout -- .")
    out = collect(p, r, rdir)
    out["how"] = "patch applied to /repo with git apply, reverted with git checkout -- ."
    return out


def run_on_copy(sid, d, p):
    w = tempfile.mkdtemp(prefix=f"seedrun-{sid}-{p}-")
    try:
        assert sh(f"git -C /repo archive HEAD src | tar -x -C {w}").returncode == 0
        assert sh(f"cd {w} && patch -p1 -s < {d}/patch.diff").returncode == 0, sid
        rdir = os.path.join(w, "replays")
        r = sh(f"cd {ROOT} && HASHSTORE_SRC={w}/src/hashstore VERIF_NO_BASELINE=1 VERIF_EVIDENCE_DIR={w}/ev "
               f"VERIF_REPLAY_DIR={rdir} ./check {p}", timeout=3000)
        out = collect(p, r, rdir)
        out["how"] = "scratch copy of /repo HEAD with the patch applied (HASHSTORE_SRC), /repo untouched"
        return out
    finally:
        shutil.rmtree(w, ignore_errors=True)


def one(sid, copies):
    d = os.path.join(ROOT, "seeded", sid)
    prop = sid.split("-")[1]
    meta_p = os.path.join(d, "meta.json")
    meta = json.load(open(meta_p)) if os.path.exists(meta_p) else {}
    meta.update({"id": sid, "breaks_property": prop,
                 "origin": "written by an independent sub-agent that was given only the "
                           "property text and a scratch worktree of /repo",
                 "needs": open(os.path.join(d, "notes.txt")).read().strip()[:1500]})
    runs = []
    for p in [prop] + EXTRA.get(sid, []):
        x = run_on_copy(sid, d, p) if copies else run_in_repo(sid, d, p)
        runs.append(x)
        print(sid, p, "exit", x["exit"], x["violations"], "violation lines",
              [y["verdict"] for y in x["replays"]], flush=True)
    meta["ran"] = runs
    meta["ran_on_repo_head"] = sh("git -C /repo rev-parse --short HEAD").stdout.strip()
    meta["caught"] = any(x["exit"] == 1 for x in runs)
    json.dump(meta, open(meta_p, "w"), indent=1)


def main():
    args = sys.argv[1:]
    copies = 0
    if args and args[0] == "--copies":
        copies = int(args[1])
        args = args[2:]
    ids = args or sorted(os.path.basename(d) for d in glob.glob(os.path.join(ROOT, "seeded", "S-*")))
    assert sh("git -C /repo status --porcelain").stdout.strip() == "", "repo not clean"
    if copies:
        with ThreadPoolExecutor(max_workers=copies) as ex:
            list(ex.map(lambda s: one(s, True), ids))
    else:
        for sid in ids:
            one(sid, False)
    assert sh("git -C /repo status --porcelain").stdout.strip() == ""
    shutil.rmtree(EVDIR, ignore_errors=True)


main()
