"""Writes MANIFEST.json from the property table (keeps the claimed list and not_applicable in
step with what the checker implements)."""
import json
import os
import sys

ROOT = os.path.dirname(os.path.dirname(os.path.abspath(__file__)))
sys.path.insert(0, ROOT)
from props import table  # noqa

LEVEL = {
    "C07": "other", "C12": "other", "C16": "other", "C13": "fault_enumeration",
}
TEXT = {
    "C01": "every function between store_object/retrieve_object and the bytes on disk (Stream, write loop with a proved fold rule, move into place, tagging, lookup) is proved against its contract for all contents, all four kinds of data argument and a symbolic store algorithm; the round-trip and the frame over calls on other pids are lemmas over those contracts",
    "C02": "_clean_algorithm is proved against an independent spelling spec (squash equality) plus an acceptance table; _refine_algorithm_list including its frame on the instance list; digest map of the write loop as a function of this call's arguments only; string lemmas decided on every code point",
    "C03": "outcome-complete contracts of tagging and storing proved on the real bodies; lemma: a call on a bound pid is rejected and changes no reference and no existing object; re-binding succeeds after delete_object",
    "C04": "frame obligations on the file system of every call that can delete (real bodies against contracts) plus lemmas that a still-referenced object is untouched by any public call and goes exactly with its last reference",
    "C05": "representation invariant (exact indexes, no residue, history sets) shown to be preserved by the contract of every public call, and every real body shown to refine its contract on all paths",
    "C06": "validation verdict of the contracts is literally 'size equal and lower(checksum) equal to the true digest'; both digest paths of the real _verify_object_information and its callers are proved against it",
    "C08": "lock multisets are restored on every exit path (normal and exceptional) of every function that acquires, acquisition order and no-reacquire are call-site preconditions, release-only-held; liveness of wait/notify is argued on paper",
    "C11": "functional contracts of the four metadata calls over the view M[(pid, format)] proved on the real bodies (directory loop rule for delete-all); round trip, isolation and lifetime are lemmas",
    "C12": "monitor discipline of the metadata document lock proved on the real bodies (acquired key is the waited key, release only what is held, lock restored); schedules are not enumerated",
    "C17": "checker contracts with exact raise conditions; for every public call the contract's rejected and read-only outcomes leave the file system term unchanged and the real bodies refine those contracts",
    "C18": "every path a primitive receives is built from fixed directory names and hash digests (path algebra obligations); whole-line comparison in list updates; frame lemmas for an arbitrary different identifier",
    "C19": "lemma over the contracts: one-call storing and step-wise storing give the same outcome class, the same store state, cid, size and default digests; real bodies refine the contracts",
    "C09": "every file-system primitive of the fully inlined store / tag / delete / metadata calls is checked against the step invariant: permanent files only appear by rename of a closed temporary file with complete content, disappear by rename-away or remove, and are never opened for writing",
    "C10": "after every primitive of the fully inlined calls the frame over all other pids and the completeness of permanent files are proved; recovery (delete_object then store) is a lemma over the contracts from every partial reference condition without residue",
    "C13": "the real bodies are re-run with one injected OSError at each primitive in turn (one-off and persistent): success only with the whole effect, a failed store/tag leaves the pid unbound or as before, a failed store_metadata keeps the previous version, other pids untouched; one known finding (persistent read fault defeats the roll-back)",
    "C07": "lock discipline on the real bodies: acquired key is the waited key, release only what is held, every write of an object / cid list / pid reference happens under its lock (per primitive, from the inlined calls), one guard per location class, no write after releasing the lock a location was read under, coverage not reduced against the committed baseline; schedules are not enumerated; two known findings, replayed with a one-preemption driver",
    "C16": "both flavours of every synchronised function are proved against one flavour-independent contract (same outcome, file-system effect and lock multisets), and the constructor is proved to create exactly the attributes of the selected flavour; real forked processes are not run",
    "C20": "main() is executed symbolically over a symbolic argparse namespace derived from the real add_argument calls; each verb makes exactly the documented API call with the option values bound to the documented parameters and with the types the API contracts require; the store is opened with its recorded configuration",
    "C14": "constructor and configuration functions proved against an outcome-complete contract: accepted iff the supplied configuration equals the recorded one, refused calls create and modify nothing",
    "C15": "_shard proved against the README layout (tokens, remainder, concatenation) from its real comprehension; path builders, reference-file formats and YAML key set proved against the published layout",
}
NOTE = ("trusted: CPython semantics of the interpreted subset, library primitive contracts "
        "(vc/lib.py, vc/lib2.py), hash collision-freedom, atomic rename; the list is in every "
        "evidence file under coverage.trusted_base")
TECH = "contract-based deductive verification (own VC generator over the real AST, z3)"
REASONS = {
    "C07": "lock-discipline layer for the object locks not built yet (schedule quantifier itself is outside contract-based verification)",
    "C09": "step-invariant monitor not built yet",
    "C10": "crash-point step invariant not built yet",
    "C13": "fault mode not built yet",
    "C09": "every file-system primitive of the fully inlined store / tag / delete / metadata calls is checked against the step invariant: permanent files only appear by rename of a closed temporary file with complete content, disappear by rename-away or remove, and are never opened for writing",
    "C10": "after every primitive of the fully inlined calls the frame over all other pids and the completeness of permanent files are proved; recovery (delete_object then store) is a lemma over the contracts from every partial reference condition without residue",
    "C13": "the real bodies are re-run with one injected OSError at each primitive in turn (one-off and persistent): success only with the whole effect, a failed store/tag leaves the pid unbound or as before, a failed store_metadata keeps the previous version, other pids untouched; one known finding (persistent read fault defeats the roll-back)",
    "C07": "lock discipline on the real bodies: acquired key is the waited key, release only what is held, every write of an object / cid list / pid reference happens under its lock (per primitive, from the inlined calls), one guard per location class, no write after releasing the lock a location was read under, coverage not reduced against the committed baseline; schedules are not enumerated; two known findings, replayed with a one-preemption driver",
    "C16": "both flavours of every synchronised function are proved against one flavour-independent contract (same outcome, file-system effect and lock multisets), and the constructor is proved to create exactly the attributes of the selected flavour; real forked processes are not run",
    "C20": "main() is executed symbolically over a symbolic argparse namespace derived from the real add_argument calls; each verb makes exactly the documented API call with the option values bound to the documented parameters and with the types the API contracts require; the store is opened with its recorded configuration",
    "C14": "constructor contracts written; property table entry not finished",
    "C15": "shard proof not built yet",
    "C16": "mode-relation check not built yet",
    "C20": "client contracts not built yet",
}


def main():
    ids = [json.loads(l)["id"] for l in open(os.path.join(ROOT, "properties.jsonl"))]
    checks, na = [], []
    for i in ids:
        if i in table.PROPS:
            cat = LEVEL.get(i, "proof")
            checks.append({
                "property_id": i,
                "quick_cmd": f"./check {i} --tier quick",
                "thorough_cmd": f"./check {i} --tier thorough",
                "evidence_file": f"/verif/evidence/{i}.json",
                "replay_cmd_template": f"./check {i} --replay {{path}}",
                "engine": "vc",
                "level_claimed": {"category": cat, "text": TEXT.get(i, ""),
                                  "design_ref": f"DESIGN.md section 5, {i}"},
                "level_note": NOTE,
                "technique": TECH,
            })
        else:
            na.append({"property_id": i, "reason": REASONS.get(i, "contracts not completed")})
    m = {
        "version": 1,
        "setup_cmd": "python3-vt -c \"import z3\" && /venv/bin/python -c \"import hashstore, yaml\"",
        "hooks": {"guard": "HASHSTORE_VERIF",
                  "enable": "no hook is used: contracts are sidecar files under /verif/contracts, "
                            "replays monkey-patch inside the replay process",
                  "baseline_off_cmd": "cd /repo && /venv/bin/python -m pytest -q -p no:cacheprovider --timeout=900",
                  "source_commits": [], "add_only": True},
        "engines": [{"name": "vc", "path": "/verif/vc", "serves_properties": [c["property_id"] for c in checks],
                     "kind_free_text": "symbolic execution of the real function ASTs against sidecar "
                                       "contracts; obligations discharged by z3 (python3-vt)"}],
        "checks": checks,
        "notes": "exit codes: 0 held, 1 VIOLATION, 2 undecided, 3 checker failure",
        "not_applicable": na,
    }
    with open(os.path.join(ROOT, "MANIFEST.json"), "w") as fh:
        json.dump(m, fh, indent=1)
    print("claimed:", [c["property_id"] for c in checks])


main()
