"""Prints the markdown table of DESIGN.md I.10 from seeded/*/meta.json (after tools/run_seeded.py)."""
import glob
import json
import os

ROOT = os.path.dirname(os.path.dirname(os.path.abspath(__file__)))
print("| seeded change | what it is (from the author's notes) | caught by | failing obligation(s) | replay |")
print("|---|---|---|---|---|")
n = caught = repro = 0
for d in sorted(glob.glob(os.path.join(ROOT, "seeded", "S-*"))):
    m = json.load(open(os.path.join(d, "meta.json")))
    runs = m.get("ran", [])
    hit = [r for r in runs if r["exit"] == 1]
    obs = []
    verdicts = []
    for r in hit:
        for rp in r["replays"]:
            if rp["obligation"][:80] not in obs:
                obs.append(rp["obligation"][:80])
            verdicts.append(rp["verdict"])
    v = "reproduced" if "reproduced" in verdicts else ("no-failing-input-found" if verdicts else "-")
    what = " ".join((m.get("needs") or "").split())[:170].replace("|", "/")
    by = ", ".join(r["check"].split()[-1] for r in hit) or "MISSED (" + ", ".join(
        f"{r['check'].split()[-1]} exit {r['exit']}" for r in runs) + ")"
    print(f"| {m['id']} | {what} | {by} | {'; '.join(obs[:2])} | {v} |")
    n += 1
    caught += bool(hit)
    repro += v == "reproduced"
print(f"\n{n} seeded changes, {caught} reported as violations, {repro} with a natively reproduced failing input.")
