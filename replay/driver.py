"""Native replay driver: run with /venv/bin/python (imports the working tree of /repo).

    /venv/bin/python replay/driver.py <scenario.json>

Builds a fresh store in a temporary directory, runs the scenario's oracle on the real code and
prints one JSON line {"reproduced": bool, "observed": str}.  The oracles evaluate the *property
statement* with an independent implementation of the README layout (layout.py), never the
contracts.
"""
import hashlib
import io
import json
import os
import shutil
import sys
import tempfile
import threading
import traceback
from pathlib import Path

import logging
logging.disable(logging.CRITICAL)      # the library logs every rejected call
HERE = os.path.dirname(os.path.abspath(__file__))
sys.path.insert(0, HERE)
import layout  # noqa: E402
if os.environ.get("HASHSTORE_SRC"):
    # experiments on a changed copy of the sources (seeded changes, benign refactorings): the replay
    # must run the same tree the obligations were generated from
    sys.path.insert(0, os.path.dirname(os.path.abspath(os.environ["HASHSTORE_SRC"])))


def _child_env():
    env = dict(os.environ)
    if env.get("HASHSTORE_SRC"):
        env["PYTHONPATH"] = os.path.dirname(os.path.abspath(env["HASHSTORE_SRC"]))
    return env


def new_store(cfg, root=None):
    from hashstore.filehashstore import FileHashStore
    root = root or tempfile.mkdtemp(prefix=f"hsreplay_{os.getpid()}_")
    props = {"store_path": os.path.join(root, "store"), "store_depth": cfg.get("depth", 3),
             "store_width": cfg.get("width", 2), "store_algorithm": cfg.get("algorithm", "SHA-256"),
             "store_metadata_namespace": cfg.get("namespace", "https://ns.dataone.org/service/types/v2.0#SystemMetadata")}
    return FileHashStore(props), props, root


def mk_data(kind, content, root, offset=0):
    """The four accepted kinds of data argument."""
    p = os.path.join(root, "input.bin")
    with open(p, "wb") as fh:
        fh.write(content)
    if kind == "str":
        return p, None
    if kind == "Path":
        return Path(p), None
    if kind == "file":
        fh = open(p, "rb")
        fh.seek(offset)
        return fh, fh
    if kind == "BytesIO":
        b = io.BytesIO(content)
        b.seek(offset)
        return b, b
    raise ValueError(kind)


def tmp_input(root, content, name="in.bin"):
    """A path-string data argument (the kind every version of the code accepts)."""
    p = os.path.join(root, name)
    with open(p, "wb") as fh:
        fh.write(content)
    return p


def outcome(f, *a, **k):
    try:
        return ("return", f(*a, **k))
    except BaseException as e:  # noqa
        return ("raise", type(e).__name__, str(e)[:200])


# ---------------------------------------------------------------------------------------------------
# oracles
# ---------------------------------------------------------------------------------------------------
def o_store_roundtrip(p, cfg):
    """C01: any accepted data kind is stored, cid/size are true, bytes come back, stream kept."""
    store, props, root = new_store(cfg)
    content = bytes.fromhex(p.get("content_hex", "68656c6c6f"))
    off = min(p.get("offset", 0), len(content))
    data, stream = mk_data(p["kind"], content, root, off)
    out = outcome(store.store_object, p.get("pid", "pid-1"), data)
    if out[0] != "return":
        return True, f"store_object({p['kind']}) raised {out[1]}: {out[2]}"
    om = out[1]
    alg = layout.HASHLIB[props["store_algorithm"]]
    want = hashlib.new(alg, content).hexdigest()
    if om.cid != want or om.obj_size != len(content):
        return True, f"cid/size wrong: {om.cid} {om.obj_size}"
    got = store.retrieve_object(p.get("pid", "pid-1")).read()
    if got != content:
        return True, "retrieved bytes differ"
    if stream is not None and (stream.closed or stream.tell() != off):
        return True, "caller's stream closed or moved"
    return False, "stored, retrieved, stream left alone"


def o_digest_keys_independent(p, cfg):
    """C02: the key set of a store_object result does not depend on earlier calls."""
    store, props, root = new_store(cfg)
    first = dict(p.get("first", {}))
    out1 = outcome(store.store_object, "pid-a", tmp_input(root, b"first", "a.bin"), **first)
    if out1[0] != "return":
        return None, f"first store raised {out1[1]}: {out1[2]}"
    out2 = outcome(store.store_object, "pid-b", tmp_input(root, b"second", "b.bin"))
    if out2[0] != "return":
        return True, f"second store raised {out2[1]}"
    keys = set(out2[1].hex_digests)
    want = {"md5", "sha1", "sha256", "sha384", "sha512"}
    if keys != want:
        return True, f"second call's digests have keys {sorted(keys)} after a first call with {first}"
    for k, v in out2[1].hex_digests.items():
        if v != hashlib.new(k, b"second").hexdigest():
            return True, f"digest {k} wrong"
    return False, "key set independent of history"


def build_state(store, state, pid, content, cfg_alg, root=None):
    """Bring `pid` into one of the reference conditions the public API can create."""
    cid = hashlib.new(cfg_alg, content).hexdigest()
    if state == "unbound":
        return cid
    root = root or os.path.dirname(store.root)
    if state == "bound":
        store.store_object(pid, tmp_input(root, content))
        return cid
    if state == "bound-shared":
        store.store_object(pid, tmp_input(root, content))
        store.store_object(pid + "-other", tmp_input(root, content))
        return cid
    if state == "object-missing":      # tag_object on a cid that was never stored
        store.tag_object(pid, cid)
        return cid
    raise ValueError(state)


def o_delete_total(p, cfg):
    """C05: delete_object succeeds and clears the pid from every API-creatable condition and
    leaves no temporary / marker file."""
    store, props, root = new_store(cfg)
    alg = layout.HASHLIB[props["store_algorithm"]]
    pid = p.get("pid", "pid-1")
    cid = build_state(store, p["state"], pid, b"some bytes", alg)
    out = outcome(store.delete_object, pid)
    lay = layout.Layout(props)
    view = lay.view()
    if out[0] != "return":
        return True, f"delete_object raised {out[1]}: {out[2]} from state {p['state']}"
    if pid in view["P"]:
        return True, "pid still bound"
    if view["residue"]:
        return True, f"residue left: {view['residue'][:3]}"
    for c, lst in view["C"].items():
        if not lst or pid in lst:
            return True, f"list of {c} empty or still names the pid"
    return False, "deleted cleanly"


def o_valid_not_deleted(p, cfg):
    """C06: a correct checksum in any case / algorithm spelling never deletes or rejects."""
    store, props, root = new_store(cfg)
    content = b"validate me"
    om = store.store_object(data=tmp_input(root, content))
    algo = p.get("algorithm", "sha3_256")
    hl = algo.lower().replace("-", "_") if "3" in algo and "sha3" in algo.lower() else \
        algo.lower().replace("-", "").replace("_", "")
    try:
        dig = hashlib.new(hl, content).hexdigest()
    except Exception as e:
        return False, f"algorithm {algo} not usable natively: {e}"
    cs = dig.upper() if p.get("upper", True) else dig
    out = outcome(store.delete_if_invalid_object, om, cs, algo, len(content))
    lay = layout.Layout(props)
    present = om.cid in lay.view()["O"]
    if out[0] != "return" or not present:
        return True, (f"correct {'upper-case ' if p.get('upper', True) else ''}checksum ({algo}) "
                      f"judged invalid: {out[1:]} object present={present}")
    return False, "valid verdict, object kept"


def o_api_outcome(p, cfg):
    """A public call on a concretised state must end in the outcome class the contract states."""
    store, props, root = new_store(cfg)
    alg = layout.HASHLIB[props["store_algorithm"]]
    pid = p.get("pid", "pid-1")
    if "state" in p:
        build_state(store, p["state"], pid, b"some bytes", alg)
    args = [decode_arg(a, root) for a in p.get("args", [])]
    out = outcome(getattr(store, p["call"]), *args)
    got = "return" if out[0] == "return" else out[1]
    want = p["expect"]
    if got != want:
        return True, f"{p['call']} ended with {got} ({out[2] if out[0]=='raise' else ''}); the property requires {want}"
    return False, f"{p['call']} ended with {got} as required"


def decode_arg(a, root):
    if isinstance(a, dict):
        if "bytesio" in a:
            return io.BytesIO(bytes.fromhex(a["bytesio"]))
        if "none" in a:
            return None
    return a


def o_pure_call(p, cfg):
    """A (static or instance) helper called on concrete arguments; the expected result comes
    from the property's spec function evaluated by replay/spec_eval.py."""
    store, props, root = new_store(cfg)
    f = getattr(store, p["function"])
    out = outcome(f, *p.get("args", []))
    got = ("return", repr(out[1])) if out[0] == "return" else ("raise", out[1])
    want = tuple(p["expect"])
    if got != want:
        return True, f"{p['function']}{tuple(p.get('args', []))} gave {got}, property requires {want}"
    return False, f"{p['function']} behaves as required on this input"


def o_metadata_exclusion(p, cfg):
    """C12 (lock discipline K1): while one thread holds a metadata document, a second
    delete_metadata(pid, format) on the same document must wait."""
    store, props, root = new_store(cfg)
    pid, fmt = "pid-1", "fmt-a"
    store.store_metadata(pid, tmp_input(root, b"<doc/>"), fmt)
    doc = store._computehash(pid + fmt)
    lst = store.metadata_locked_docs_mp if store.use_multiprocessing else store.metadata_locked_docs_th
    cond = store.metadata_condition_mp if store.use_multiprocessing else store.metadata_condition_th
    with cond:
        lst.append(doc)            # thread A is inside its critical section for this document
    done = threading.Event()

    def b():
        store.delete_metadata(pid, fmt)
        done.set()
    t = threading.Thread(target=b, daemon=True)
    t.start()
    entered = done.wait(2.0)       # B must block until A releases
    with cond:
        lst.remove(doc)
        cond.notify_all()
    t.join(5)
    if entered:
        return True, ("delete_metadata(pid, format) entered the critical section of a document "
                      "another thread holds (it waits on the pid, not on the document name)")
    return False, "second caller waited for the document"


ORACLES = {k[2:]: v for k, v in list(globals().items()) if k.startswith("o_")}


def main():
    with open(sys.argv[1]) as fh:
        sc = json.load(fh)
    cfg = sc.get("config", {})
    try:
        rep, obs = ORACLES[sc["oracle"]](sc.get("params", {}), cfg)
        print(json.dumps({"reproduced": None if rep is None else bool(rep), "observed": obs}))
    except Exception:
        print(json.dumps({"reproduced": None, "observed": "driver error: " + traceback.format_exc()[-800:]}))
    finally:
        for d in os.listdir(tempfile.gettempdir()):
            if d.startswith(f"hsreplay_{os.getpid()}_"):      # only what this process created
                shutil.rmtree(os.path.join(tempfile.gettempdir(), d), ignore_errors=True)



# ---------------------------------------------------------------------------------------------------
# fault injection (C13 / C08): a wrapper around the primitives, installed in this process only
# ---------------------------------------------------------------------------------------------------
class FaultPlan:
    """Fail primitive `prim` on a path of category `target` (once, or until uninstalled)."""

    def __init__(self, lay, prim, target, persistent):
        self.lay, self.prim, self.target, self.persistent = lay, prim, target, persistent
        self.fired = 0
        self.saved = {}

    def category(self, path):
        p = os.path.abspath(str(path))
        root = os.path.abspath(self.lay.root)
        if not p.startswith(root):
            return "ext"
        rel = os.path.relpath(p, root).split(os.sep)
        marked = rel[-1].endswith("_delete")
        if rel[0] == "refs" and len(rel) > 1:
            c = {"pids": "pidref", "cids": "cidref", "tmp": "tmp-refs"}.get(rel[1], "refs")
        elif rel[0] == "objects":
            c = "tmp-obj" if len(rel) > 1 and rel[1] == "tmp" else "obj"
        elif rel[0] == "metadata":
            c = "tmp-meta" if len(rel) > 1 and rel[1] == "tmp" else "meta"
        else:
            c = rel[0]
        return c + ("-marked" if marked else "")

    def hit(self, prim, path):
        if prim != self.prim or self.category(path) != self.target:
            return False
        if self.fired and not self.persistent:
            return False
        self.fired += 1
        return True

    def install(self):
        import builtins
        import shutil as _sh
        import hashstore.filehashstore as fhs
        plan = self
        real_open, real_remove, real_move = builtins.open, os.remove, _sh.move

        def mode_prim(mode):
            m = mode.replace("b", "").replace("t", "")
            return {"r": "open-r", "w": "open-w", "a": "open-a", "r+": "open-r+"}.get(m, "open-" + m)

        def f_open(file, mode="r", *a, **k):
            if isinstance(file, (str, os.PathLike)) and plan.hit(mode_prim(mode), file):
                raise OSError(5, "injected I/O error", str(file))
            return real_open(file, mode, *a, **k)

        def f_remove(path, *a, **k):
            if plan.hit("remove", path):
                raise OSError(5, "injected I/O error", str(path))
            return real_remove(path, *a, **k)

        def f_move(src, dst, *a, **k):
            if plan.hit("move", dst):
                raise OSError(5, "injected I/O error", str(dst))
            return real_move(src, dst, *a, **k)
        real_makedirs = os.makedirs

        def f_makedirs(path, *a, **k):
            if plan.hit("makedirs", os.path.join(str(path), "x")):
                raise OSError(5, "injected I/O error", str(path))
            return real_makedirs(path, *a, **k)
        self.saved = {"open": real_open, "io_open": io.open, "remove": real_remove, "move": real_move,
                      "makedirs": real_makedirs}
        builtins.open = f_open
        io.open = f_open
        os.remove = f_remove
        _sh.move = f_move
        os.makedirs = f_makedirs

    def uninstall(self):
        import builtins
        import shutil as _sh
        builtins.open = self.saved["open"]
        io.open = self.saved["io_open"]
        os.remove = self.saved["remove"]
        _sh.move = self.saved["move"]
        os.makedirs = self.saved["makedirs"]


def _fault_metadata(p, store, lay, root, sc, first=False):
    """C13 X1/X3/X4 for the metadata operations: a failed store_metadata keeps the previous document
    (or none), success is only reported with the whole effect, other pids' documents are untouched."""
    pid, other, fmt, fmt2 = "pid-faulted", "pid-other", "http://ns.example/f1", "http://ns.example/f2"
    v1, v2, vo = b"<doc version='1'/>", b"<doc version='2'/>", b"<doc other/>"
    store.store_metadata(other, tmp_input(root, vo, "mo.xml"), fmt)
    if not first:
        store.store_metadata(pid, tmp_input(root, v1, "m1.xml"), fmt)
    if "all documents" in sc:
        store.store_metadata(pid, tmp_input(root, v1, "m1b.xml"), fmt2)

    def doc(q, f):
        try:
            with store.retrieve_metadata(q, f) as fh:
                return fh.read()
        except Exception as e:     # noqa: BLE001 - the observation is "not retrievable"
            return type(e).__name__
    plan = FaultPlan(lay, p["prim"], p["target"], p.get("persistent", False))
    new = tmp_input(root, v2, "m2.xml")
    plan.install()
    try:
        if sc.startswith("store_metadata"):
            out = outcome(store.store_metadata, pid, new, fmt)
        elif "all documents" in sc:
            out = outcome(store.delete_metadata, pid)
        else:
            out = outcome(store.delete_metadata, pid, fmt)
    finally:
        plan.uninstall()
    if not plan.fired:
        return None, f"the fault site {p['prim']}@{p['target']} was not reached natively"
    held = _held_identifiers(store)
    if held:
        return True, f"{sc} after {p['prim']}@{p['target']} left identifiers locked: {held}"
    if doc(other, fmt) != vo:
        return True, "another pid's metadata document was disturbed"
    now = doc(pid, fmt)
    tagp = f"{sc} with {p['prim']}@{p['target']} ({'persistent' if p.get('persistent') else 'one-off'})"
    if sc.startswith("store_metadata"):
        if out[0] == "return":
            return (now != v2), f"{tagp}: success reported, document is {now!r}"
        prev = "MetadataNotFound" if first else v1
        if now != prev and not (first and isinstance(now, str)):
            return True, (f"{tagp}: failed with {out[1]} and the previous document version is "
                          f"no longer retrievable (retrieve_metadata gives {now!r})")
        return False, f"{tagp}: failed with {out[1]}, previous document intact"
    if out[0] == "return":
        gone = isinstance(now, str) and ("all documents" not in sc or isinstance(doc(pid, fmt2), str))
        return (not gone), f"{tagp}: success reported, document still retrievable={not gone}"
    return False, f"{tagp}: failed with {out[1]}"


def _held_identifiers(store):
    out = {}
    for n in ("object_locked_pids", "object_locked_cids", "reference_locked_pids",
              "metadata_locked_docs"):
        for suf in ("_th", "_mp"):
            v = getattr(store, n + suf, None)
            if v is not None and len(v):
                out[n + suf] = list(v)
    return out


def o_fault_call(p, cfg):
    """C13: one injected failure during tag_object / store_object: the call raises unless its
    whole effect was achieved; after a failure the pid is unbound (or bound as before) and can be
    stored at once; other pids are untouched."""
    store, props, root = new_store(cfg)
    lay = layout.Layout(props)
    alg = layout.HASHLIB[props["store_algorithm"]]
    content = b"payload under fault"
    cid = hashlib.new(alg, content).hexdigest()
    pid, other = "pid-faulted", "pid-other"
    sc = p["scenario"]
    if "additional pid" in sc or "shared" in sc or "duplicate" in sc:
        store.store_object(other, tmp_input(root, content, "o.bin"))
    elif "unreferenced" in sc:
        store.store_object(None, tmp_input(root, content, "o.bin"))
    if sc.startswith("delete_object"):
        store.store_object(pid, tmp_input(root, content, "p.bin"))
        if "without the data object" in sc:
            os.remove(lay.obj_path(cid))
    if "already bound to the requested cid" in sc:
        store.store_object(pid, tmp_input(root, content, "p.bin"))
    if "bound to another cid" in sc:
        store.store_object(pid, tmp_input(root, b"other earlier content", "p.bin"))
    if sc.endswith("_metadata: overwrite") or sc.startswith("delete_metadata"):
        return _fault_metadata(p, store, lay, root, sc)
    if sc.startswith("store_metadata"):
        return _fault_metadata(p, store, lay, root, sc, first=True)
    before = lay.view()
    plan = FaultPlan(lay, p["prim"], p["target"], p.get("persistent", False))
    data = tmp_input(root, content, "d.bin")
    plan.install()
    try:
        if sc.startswith("tag_object"):
            out = outcome(store.tag_object, pid, cid)
        elif sc.startswith("store_object"):
            out = outcome(store.store_object, pid, data)
        elif sc.startswith("delete_object"):
            out = outcome(store.delete_object, pid)
        else:
            return None, f"scenario {sc} has no native recipe"
    finally:
        plan.uninstall()
    after = lay.view()
    if not plan.fired:
        return None, f"the fault site {p['prim']}@{p['target']} was not reached natively"
    # F1 (C08): whatever the outcome, no identifier stays locked
    held = _held_identifiers(store)
    if held:
        return True, (f"{sc} ended with {out[0]} {out[1] if out[0] == 'raise' else ''} after "
                      f"{p['prim']}@{p['target']} and left identifiers locked: {held}")
    # X4: the other pid
    if other in before["P"]:
        if other not in after["P"] or after["P"][other] != before["P"][other] \
                or other not in after["C"].get(cid, []) or cid not in after["O"]:
            return True, "another pid's references or object were disturbed"
    bound = pid in after["P"]
    if sc.startswith("delete_object"):
        if out[0] == "return" and bound:
            return True, "delete_object reported success but the pid is still bound"
        if out[0] == "return":
            listed = [c for c, lst in after["C"].items() if pid in lst]
            if listed:
                return True, (f"delete_object reported success after {p['prim']}@{p['target']} but the pid is "
                              "still listed in its cid's reference list (the object can never be reclaimed)")
            if "sole" in sc and (cid in after["O"] or cid in after["C"]):
                return True, (f"delete_object of the sole reference reported success after {p['prim']}@"
                              f"{p['target']} but the object / its reference list were left behind")
        return False, f"{out[0]}; pid bound={bound}"
    if out[0] == "return":
        ok = bound and after["P"][pid] == cid and pid in after["C"].get(cid, [])
        return (not ok), ("success reported with the whole effect" if ok else
                          "success reported without the whole effect")
    if pid in before["P"] and (not bound or after["P"][pid] != before["P"][pid]
                               or pid not in after["C"].get(before["P"][pid], [])):
        return True, (f"{sc} failed with {out[1]} after {p['prim']}@{p['target']} and destroyed the "
                      "pid's earlier binding (the roll-back untagged a binding this call did not create)")
    if bound and pid not in before["P"]:
        retry = outcome(store.tag_object, pid, cid) if sc.startswith("tag_object") else \
            outcome(store.store_object, pid, data)
        return True, (f"{sc} failed with {out[1]} after {p['prim']}@{p['target']} "
                      f"({'persistent' if p.get('persistent') else 'one-off'}) but the pid stays bound; "
                      f"the immediate retry gives {retry[1] if retry[0] == 'raise' else 'success'}")
    return False, f"failed with {out[1]}; pid left unbound"


ORACLES["fault_call"] = o_fault_call


def o_mp_mode(p, cfg):
    """C16: with USE_MULTIPROCESSING=True every call behaves as in threading mode."""
    os.environ["USE_MULTIPROCESSING"] = "True"
    try:
        store, props, root = new_store(cfg)
        out = outcome(store.store_object, "pid-mp", tmp_input(root, b"mp bytes"))
        if out[0] != "return":
            return True, f"store_object in multiprocessing mode raised {out[1]}: {out[2]}"
        out = outcome(store.store_metadata, "pid-mp", tmp_input(root, b"<m/>", "m.xml"), "f")
        if out[0] != "return":
            return True, f"store_metadata in multiprocessing mode raised {out[1]}: {out[2]}"
        out = outcome(store.delete_object, "pid-mp")
        if out[0] != "return":
            return True, f"delete_object in multiprocessing mode raised {out[1]}: {out[2]}"
        return False, "store / store_metadata / delete work in multiprocessing mode"
    finally:
        os.environ.pop("USE_MULTIPROCESSING", None)


ORACLES["mp_mode"] = o_mp_mode


def o_client_cli(p, cfg):
    """C20: a client verb with its options has the effect of the API call with those values."""
    import subprocess
    store, props, root = new_store(cfg)
    data = tmp_input(root, b"client bytes", "c.bin")
    argv = [sys.executable, "-m", "hashstore.hashstoreclient", props["store_path"]] + [
        a.replace("{data}", data).replace("{size}", str(len(b"client bytes"))) for a in p["argv"]]
    r = subprocess.run(argv, capture_output=True, text=True, timeout=60, env=_child_env())
    lay = layout.Layout(props)
    view = lay.view()
    if r.returncode != 0:
        last = (r.stderr.strip().splitlines() or ["?"])[-1]
        return True, f"client {' '.join(p['argv'])} failed: {last[:200]}"
    if p.get("expect_bound") and p["expect_bound"] not in view["P"]:
        return True, "client reported success but the pid is not bound"
    return False, "client call had the effect of the API call"


ORACLES["client_cli"] = o_client_cli


# ---------------------------------------------------------------------------------------------------
# one-preemption schedules (C07): thread A is paused at one point, thread B runs to completion
# ---------------------------------------------------------------------------------------------------
def _paused_call(pause_install, a_call, b_call):
    at_point, resume = threading.Event(), threading.Event()
    res = {}
    uninstall = pause_install(at_point, resume)

    def ta():
        res["A"] = outcome(*a_call)
    t = threading.Thread(target=ta, daemon=True)
    t.start()
    reached = at_point.wait(10)
    try:
        if reached:
            done = {}

            def tb():
                done["B"] = outcome(*b_call)
            t2 = threading.Thread(target=tb, daemon=True)
            t2.start()
            t2.join(5)
            res["B"] = done.get("B", ("blocked",))
    finally:
        resume.set()
        t.join(10)
        uninstall()
    res["reached"] = reached
    return res


def o_race_store_delete(p, cfg):
    """C07: store_object(p1, X) that finds X present, while delete_object(p2) removes the last
    reference of X: a store that returned successfully must leave its pid retrievable."""
    from hashstore.filehashstore import FileHashStore
    store, props, root = new_store(cfg)
    content = b"shared content"
    store.store_object("p2", tmp_input(root, content, "x.bin"))
    real = FileHashStore._verify_object_information
    me = threading.current_thread

    def install(at_point, resume):
        state = {"armed": True}

        def wrapped(self, *a, **k):
            if state["armed"] and threading.current_thread().name == "A-thread":
                state["armed"] = False
                at_point.set()
                resume.wait(10)
            return real(self, *a, **k)
        FileHashStore._verify_object_information = wrapped
        return lambda: setattr(FileHashStore, "_verify_object_information", real)
    at_point, resume = threading.Event(), threading.Event()
    uninstall = install(at_point, resume)
    res = {}

    def ta():
        res["A"] = outcome(store.store_object, "p1", tmp_input(root, content, "y.bin"))
    t = threading.Thread(target=ta, name="A-thread", daemon=True)
    t.start()
    reached = at_point.wait(10)
    if reached:
        res["B"] = outcome(store.delete_object, "p2")
    resume.set()
    t.join(10)
    uninstall()
    if not reached:
        return None, "the pause point was not reached"
    if res.get("A", ("?",))[0] != "return":
        return False, f"store_object did not report success: {res.get('A')[1:]}"
    r = outcome(lambda: store.retrieve_object("p1").read())
    if r[0] != "return" or r[1] != content:
        return True, ("store_object(p1) returned successfully while delete_object(p2) removed the "
                      f"object it had found present; retrieve_object(p1) now gives {r[1:]}")
    return False, "p1 retrievable after the race"


def o_race_tag_delete(p, cfg):
    """C07: tag_object(p, c) paused between its two renames while delete_object(p) runs:
    the pair of outcomes must equal that of some sequential order."""
    import shutil as _sh
    store, props, root = new_store(cfg)
    alg = layout.HASHLIB[props["store_algorithm"]]
    cid = hashlib.new(alg, b"never stored").hexdigest()
    real_move = _sh.move
    at_point, resume = threading.Event(), threading.Event()
    state = {"n": 0}

    def f_move(src, dst, *a, **k):
        if threading.current_thread().name == "A-thread":
            state["n"] += 1
            if state["n"] == 2:
                at_point.set()
                resume.wait(10)
        return real_move(src, dst, *a, **k)
    _sh.move = f_move
    res = {}

    def ta():
        res["A"] = outcome(store.tag_object, "p", cid)
    t = threading.Thread(target=ta, name="A-thread", daemon=True)
    t.start()
    reached = at_point.wait(10)
    if reached:
        done = {}

        def tb():
            done["B"] = outcome(store.delete_object, "p")
        t2 = threading.Thread(target=tb, daemon=True)
        t2.start()
        t2.join(3)
        res["B"] = done.get("B", ("blocked",))
    resume.set()
    t.join(10)
    if reached and res.get("B") == ("blocked",):
        # B was correctly made to wait; let it finish now
        pass
    _sh.move = real_move
    if not reached:
        return None, "the pause point was not reached"
    a = "ok" if res["A"][0] == "return" else res["A"][1]
    b = "ok" if res["B"][0] == "return" else (res["B"][1] if len(res["B"]) > 1 else "blocked")
    sequential = {("ok", "ok"), ("ok", "PidRefsDoesNotExist")}
    if b == "blocked":
        return False, "delete_object waited for the tagging to finish"
    if (a, b) not in sequential:
        return True, (f"tag_object(p, c) paused between its two renames, delete_object(p) ran: "
                      f"outcomes (tag={a}, delete={b}) equal no sequential order")
    return False, f"outcomes (tag={a}, delete={b}) are those of a sequential order"


def o_race_delete_all_metadata(p, cfg):
    """C12: two delete_metadata(pid) (delete-all) calls: neither may fail with an error a
    sequential run cannot produce."""
    from hashstore.filehashstore import FileHashStore
    store, props, root = new_store(cfg)
    store.store_metadata("p", tmp_input(root, b"<a/>", "a.xml"), "fmt-a")
    real = FileHashStore._rename_path_for_deletion
    at_point, resume = threading.Event(), threading.Event()
    state = {"armed": True}

    def wrapped(path):
        if state["armed"] and threading.current_thread().name == "A-thread":
            state["armed"] = False
            at_point.set()
            resume.wait(10)
        return real(path)
    FileHashStore._rename_path_for_deletion = staticmethod(wrapped)
    res = {}

    def ta():
        res["A"] = outcome(store.delete_metadata, "p")
    t = threading.Thread(target=ta, name="A-thread", daemon=True)
    t.start()
    reached = at_point.wait(10)
    done = {}
    if reached:
        def tb():
            done["B"] = outcome(store.delete_metadata, "p")
        t2 = threading.Thread(target=tb, daemon=True)
        t2.start()
        t2.join(3)
    resume.set()
    t.join(10)
    if reached and "B" not in done:
        t2.join(10)
    FileHashStore._rename_path_for_deletion = staticmethod(real)
    if not reached:
        return None, "the pause point was not reached"
    a = "ok" if res["A"][0] == "return" else res["A"][1]
    b = "ok" if done.get("B", ("?",))[0] == "return" else done.get("B", ("?", "blocked"))[1]
    if a != "ok" or b != "ok":
        return True, (f"two concurrent delete_metadata(pid): outcomes (A={a}, B={b}); sequentially "
                      "both succeed (deleting what does not exist is a silent no-op)")
    if len(store.metadata_locked_docs_th):
        return True, (f"after two concurrent delete_metadata(pid) a document stays in the locked list: "
                      f"{list(store.metadata_locked_docs_th)} (every later call on it blocks)")
    return False, "both delete-alls succeeded and nothing stays locked"


ORACLES["race_delete_all_metadata"] = o_race_delete_all_metadata
ORACLES["race_store_delete"] = o_race_store_delete
ORACLES["race_tag_delete"] = o_race_tag_delete


# ---------------------------------------------------------------------------------------------------
# bounded search for a failing call sequence (used when a counter-model names a helper deep inside
# the reference / object / metadata layer): an independent reference model of the property
# statements is run next to the real store
# ---------------------------------------------------------------------------------------------------
class RefModel:
    """What the property statements (C03, C04, C05, C06, C11) say the store must look like."""

    def __init__(self, alg):
        self.alg = alg
        self.O, self.P, self.C, self.M = set(), {}, {}, {}

    def cid(self, content):
        return hashlib.new(self.alg, content).hexdigest()

    def store(self, pid, content, size=None):
        c = self.cid(content)
        if size is not None and size != len(content):
            return "NonMatchingObjSize"
        self.O.add(c)
        if pid is None:
            return "ok"
        if pid in self.P:
            return "already-exists"
        self.P[pid] = c
        self.C.setdefault(c, [])
        if pid not in self.C[c]:
            self.C[c].append(pid)
        return "ok"

    def tag(self, pid, c):
        if pid in self.P:
            return "already-exists"
        self.P[pid] = c
        self.C.setdefault(c, [])
        if pid not in self.C[c]:
            self.C[c].append(pid)
        return "ok"

    def delete(self, pid):
        if pid not in self.P:
            return "PidRefsDoesNotExist"
        c = self.P.pop(pid)
        if c in self.C and pid in self.C[c]:
            self.C[c].remove(pid)
            if not self.C[c]:
                del self.C[c]
                self.O.discard(c)
        for k in [k for k in self.M if k[0] == pid]:
            del self.M[k]
        return "ok"

    def dii_wrong_size(self, c):
        if c not in self.C:
            self.O.discard(c)
        return "NonMatchingObjSize"

    def smeta(self, pid, fmt, doc):
        self.M[(pid, fmt)] = doc
        return "ok"

    def dmeta(self, pid, fmt):
        if fmt is None:
            for k in [k for k in self.M if k[0] == pid]:
                del self.M[k]
        else:
            self.M.pop((pid, fmt), None)
        return "ok"


def _classify(out):
    if out[0] == "return":
        return "ok"
    if out[1] in ("HashStoreRefsAlreadyExists", "PidRefsAlreadyExistsError"):
        return "already-exists"
    return out[1]


def _compare(model, lay, ns, pids):
    v = lay.view()
    if v["residue"]:
        return f"temporary / marker files left: {v['residue'][:2]}"
    for pid in pids:
        bound = pid in v["P"]
        if bound != (pid in model.P):
            return f"pid {pid!r} bound={bound}, the call sequence implies {pid in model.P}"
        if bound and v["P"][pid] != model.P[pid]:
            return f"pid {pid!r} names {v['P'][pid][:10]}.., must name {model.P[pid][:10]}.."
    if set(v["C"]) != set(model.C):
        return f"cid reference lists exist for {sorted(c[:8] for c in v['C'])}, must be {sorted(c[:8] for c in model.C)}"
    for c, lst in model.C.items():
        if sorted(v["C"][c]) != sorted(lst):
            return f"reference list of {c[:8]}.. is {v['C'][c]}, must be {lst}"
        with open(lay.cid_ref(c), "r", encoding="utf8") as fh:
            raw = fh.read()
        if raw and not raw.endswith("\n"):
            return (f"reference list of {c[:8]}.. is not one pid per newline-terminated line "
                    f"(ends with {raw[-12:]!r})")
    if set(v["O"]) != model.O:
        return f"objects present {sorted(c[:8] for c in v['O'])}, must be {sorted(c[:8] for c in model.O)}"
    want_m = {(lay.H(p), lay.H(p + (f if f is not None else ns))): d for (p, f), d in model.M.items()}
    if v["M"] != want_m:
        return f"metadata documents differ: {len(v['M'])} present, {len(want_m)} expected"
    return None


def o_model_sweep(p, cfg):
    """All call sequences of length <= n over a small menu; after every call the real store must
    equal what the property statements imply (independent reference model + layout)."""
    import itertools
    pids = p.get("pids", ["doi:10.1/ab", "ab", "doi:10.1/a"])
    contents = [b"content-one", b"content-two"][:p.get("contents", 2)]
    fmts = p.get("fmts") or [None, "fmt-x"]
    if p.get("explicit_default"):
        fmts.append("@default")      # the store's default namespace passed explicitly
    menu = []
    for pid in pids:
        for ci in range(len(contents)):
            menu.append(("store", pid, ci))
        menu.append(("delete", pid))
        if not p.get("no_tag"):
            for ci in range(len(contents)):
                menu.append(("tag", pid, ci))
    if len(contents) > 1:
        menu.append(("store-nopid", 1))
        menu.append(("dii", 1))
    if p.get("metadata"):
        for pid in pids[:2]:
            for f in fmts:
                menu.append(("smeta", pid, f))
            menu.append(("dmeta", pid, None))
            if p.get("explicit_default") or p.get("fmts"):
                for f in fmts:
                    if f is not None:
                        menu.append(("dmeta", pid, f))
    if p.get("no_objects"):
        menu = [m for m in menu if m[0] in ("smeta", "dmeta")]
    n = p.get("length", 3)
    import time as _t
    t0 = _t.time()
    tried = 0
    for seq in itertools.product(menu, repeat=n):
        if _t.time() - t0 > p.get("budget_s", 75):
            break
        names = [s[0] for s in seq]
        if p.get("focus") and not any(f in names for f in p["focus"]):
            continue
        if p.get("require_all") and not all(f in names for f in p["require_all"]):
            continue
        tried += 1
        store, props, root = new_store(cfg)
        lay = layout.Layout(props)
        alg = layout.HASHLIB[props["store_algorithm"]]
        model = RefModel(alg)
        ns = props["store_metadata_namespace"]
        om_cache = {}
        try:
            for i, step in enumerate(seq):
                op = step[0]
                if op == "store":
                    out = outcome(store.store_object, step[1], tmp_input(root, contents[step[2]], f"s{i}.bin"))
                    want = model.store(step[1], contents[step[2]])
                elif op == "store-nopid":
                    out = outcome(store.store_object, None, tmp_input(root, contents[step[1]], f"s{i}.bin"))
                    want = model.store(None, contents[step[1]])
                    if out[0] == "return":
                        om_cache[step[1]] = out[1]
                elif op == "tag":
                    c = model.cid(contents[step[2]])
                    out = outcome(store.tag_object, step[1], c)
                    want = model.tag(step[1], c)
                elif op == "delete":
                    out = outcome(store.delete_object, step[1])
                    want = model.delete(step[1])
                elif op == "dii":
                    c = model.cid(contents[step[1]])
                    if c not in model.O:
                        continue
                    from hashstore.filehashstore import ObjectMetadata
                    hd = {a: hashlib.new(a, contents[step[1]]).hexdigest()
                          for a in ("md5", "sha1", "sha256", "sha384", "sha512")}
                    om = ObjectMetadata("HashStoreNoPid", c, len(contents[step[1]]), hd)
                    out = outcome(store.delete_if_invalid_object, om, hd["sha256"], "sha256",
                                  len(contents[step[1]]) + 1)
                    want = model.dii_wrong_size(c)
                elif op == "smeta":
                    doc = f"<doc {i}/>".encode()
                    fa = ns if step[2] == "@default" else step[2]
                    out = outcome(store.store_metadata, step[1], tmp_input(root, doc, f"m{i}.xml"), fa)
                    want = model.smeta(step[1], None if step[2] == "@default" else step[2], doc)
                elif op == "dmeta":
                    fa = ns if step[2] == "@default" else step[2]
                    out = outcome(store.delete_metadata, step[1], fa)
                    if step[2] == "@default":
                        model.M.pop((step[1], None), None)     # just the default-format document
                        want = "ok"
                    else:
                        want = model.dmeta(step[1], step[2])
                got = _classify(out)
                # states the API can create but the statements call inconsistent are skipped
                if got != want and want in ("ok", "already-exists", "PidRefsDoesNotExist",
                                            "NonMatchingObjSize"):
                    if not (want == "ok" and got in ("RefsFileExistsButCidObjMissing",)):
                        return True, (f"after {list(seq[:i])}: {step} ended with {got} "
                                      f"({out[2] if out[0] == 'raise' else ''}); the property requires {want}")
                bad = _compare(model, lay, ns, pids)
                if bad:
                    return True, f"after {list(seq[:i + 1])}: {bad}"
                if p.get("check_retrieve"):
                    for q in pids[:2]:
                        for f in fmts:
                            fa = ns if f == "@default" else f
                            key = (q, None if f == "@default" else f)
                            got = outcome(lambda: store.retrieve_metadata(q, fa).read())
                            want = model.M.get(key)
                            if (got[0] == "return") != (want is not None) or \
                                    (got[0] == "return" and got[1] != want):
                                return True, (f"after {list(seq[:i + 1])}: retrieve_metadata({q!r}, {fa!r}) gives "
                                              f"{got[1] if got[0] == 'return' else got[1]!r}, the calls imply "
                                              f"{want!r}")
        finally:
            shutil.rmtree(root, ignore_errors=True)
    return False, f"{tried} call sequences of length {n} agree with the reference model"


ORACLES["model_sweep"] = o_model_sweep


def _tree(root):
    out = {}
    for d, _, files in os.walk(root):
        for f in files:
            fp = os.path.join(d, f)
            if f.endswith(".log"):
                continue
            with open(fp, "rb") as fh:
                out[os.path.relpath(fp, root)] = fh.read()
    return out


def o_verdict_matrix(p, cfg):
    """C06 / C19: sizes x checksums x algorithms x spellings x whether the content is already
    stored; the verdict must be exactly 'size and checksum match', with the stated effects."""
    algos = p.get("algorithms", ["sha256", "SHA-256", "sha3_256", "SHA3-256", "md5", "blake2b"])
    content = b"matrix content"

    def hl(a):
        s = a.lower()
        return s.replace("-", "_") if "3" in s and s.startswith("sha3") else s.replace("-", "").replace("_", "")
    for state in ("absent", "unreferenced", "referenced"):
        for a in algos:
            true = hashlib.new(hl(a), content).hexdigest()
            for cs_kind in ("lower", "upper", "wrong", None):
                for size_kind in ("right", "wrong", None):
                    cs = {"lower": true, "upper": true.upper(), "wrong": "0" * len(true), None: None}[cs_kind]
                    size = {"right": len(content), "wrong": len(content) + 3, None: None}[size_kind]
                    valid = cs_kind != "wrong" and size_kind != "wrong"
                    store, props, root = new_store(cfg)
                    lay = layout.Layout(props)
                    try:
                        if state == "unreferenced":
                            store.store_object(None, tmp_input(root, content, "u.bin"))
                        elif state == "referenced":
                            store.store_object("other", tmp_input(root, content, "u.bin"))
                        before = lay.view()
                        kw = {}
                        if cs is not None:
                            kw.update(checksum=cs, checksum_algorithm=a)
                        if size is not None:
                            kw.update(expected_object_size=size)
                        out = outcome(store.store_object, "pid-m", tmp_input(root, content, "d.bin"), **kw)
                        after = lay.view()
                        where = f"store_object(state={state}, algo={a}, checksum={cs_kind}, size={size_kind})"
                        if valid and out[0] != "return":
                            return True, f"{where}: valid data rejected with {out[1]}"
                        if not valid:
                            want = "NonMatchingObjSize" if size_kind == "wrong" else "NonMatchingChecksum"
                            if out[0] == "return" or out[1] != want:
                                return True, f"{where}: expected {want}, got {out[1] if out[0] == 'raise' else 'success'}"
                            if "pid-m" in after["P"]:
                                return True, f"{where}: pid bound although the verdict is invalid"
                            if set(after["O"]) != set(before["O"]) or after["residue"]:
                                return True, f"{where}: objects changed or temporary file left"
                        # the step-wise way (C19) where the signature allows it
                        if cs is not None and size is not None and state != "absent":
                            s2, p2, r2 = new_store(cfg)
                            l2 = layout.Layout(p2)
                            if state == "referenced":
                                s2.store_object("other", tmp_input(r2, content, "u.bin"))
                            om = s2.store_object(None, tmp_input(r2, content, "d.bin"))
                            o2 = outcome(s2.delete_if_invalid_object, om, cs, a, size)
                            v2 = l2.view()
                            if valid and (o2[0] != "return" or om.cid not in v2["O"]):
                                return True, (f"delete_if_invalid_object(state={state}, algo={a}, checksum={cs_kind}, "
                                              f"size={size_kind}): valid object rejected/deleted: {o2[1:]}")
                            if not valid:
                                if o2[0] == "return":
                                    return True, f"delete_if_invalid_object({where}): invalid data accepted"
                                gone = om.cid not in v2["O"]
                                if state == "referenced" and gone:
                                    return True, "delete_if_invalid_object removed a referenced object"
                                if state == "unreferenced" and not gone:
                                    return True, "delete_if_invalid_object kept an invalid unreferenced object"
                            if cs_kind != "wrong" and size_kind == "right":
                                # a size of 0 for a non-empty object is never "the size matches"
                                o3 = outcome(s2.delete_if_invalid_object, om, cs, a, 0)
                                if o3[0] == "return":
                                    return True, (f"delete_if_invalid_object(state={state}, algo={a}, correct "
                                                  "checksum, expected size 0) judged a non-empty object valid")
                            shutil.rmtree(r2, ignore_errors=True)
                    finally:
                        shutil.rmtree(root, ignore_errors=True)
    return False, "verdicts and effects agree with the property on the whole matrix"


def o_reject_matrix(p, cfg):
    """C17: invalid values for the parameters of every public method, from a populated store:
    documented error class and a byte-for-byte unchanged store; read-only calls change nothing."""
    store, props, root = new_store(cfg)
    content = b"kept content"
    good = tmp_input(root, content, "g.bin")
    store.store_object("pid-full", good)
    store.store_metadata("pid-full", tmp_input(root, b"<m/>", "m.xml"))
    store.store_metadata("pid-meta-only", tmp_input(root, b"<n/>", "n.xml"), "fmt-q")
    om = store.store_object(None, tmp_input(root, b"unreferenced", "un.bin"))
    sroot = props["store_path"]
    bad_ids = [None, "", "  ", "a b", "tab\tid", "nl\nid", "nbsp\u00a0id", "em\u2003", "\u3000wide",
               "nel\u0085id", "\u00a0"]
    calls = []
    fresh = tmp_input(root, b"content that is not in the store yet", "fresh.bin")
    for b in bad_ids:
        if b is not None:        # store_object(None, data) is the documented store-without-pid form
            calls.append(("store_object", (b, good), {}))
            calls.append(("store_object", (b, fresh), {}))
        calls += [("tag_object", (b, om.cid), {}),
                  ("tag_object", ("pid-x", b), {}), ("delete_object", (b,), {}),
                  ("retrieve_object", (b,), {}), ("retrieve_metadata", (b,), {}),
                  ("store_metadata", (b, good), {}), ("delete_metadata", (b,), {}),
                  ("get_hex_digest", (b, "sha256"), {}), ("get_hex_digest", ("pid-full", b), {})]
    calls += [("store_object", ("pid-y", good), {"additional_algorithm": "md2"}),
              ("store_object", ("pid-y", good), {"checksum": "abc"}),
              ("store_object", ("pid-y", good), {"checksum_algorithm": "sha256"}),
              ("store_object", ("pid-y", good), {"expected_object_size": 0}),
              ("store_object", ("pid-y", good), {"expected_object_size": "12"}),
              ("store_object", ("pid-y", 42), {}), ("store_object", ("pid-y", None), {}),
              ("store_metadata", ("pid-y", 42), {}), ("store_metadata", ("pid-y", good, "  "), {}),
              ("delete_object", ("unknown-pid",), {}), ("delete_object", ("pid-meta-only",), {}),
              ("retrieve_object", ("unknown-pid",), {}), ("retrieve_object", ("pid-meta-only",), {}),
              ("retrieve_metadata", ("unknown-pid",), {}), ("get_hex_digest", ("unknown-pid", "md5"), {}),
              ("get_hex_digest", ("pid-full", "md2"), {}),
              ("delete_if_invalid_object", (om, "00", "md2", len(b"unreferenced") + 1), {}),
              ("delete_if_invalid_object", (om, "00", "md2", len(b"unreferenced")), {}),
              ("delete_if_invalid_object", (om, None, "sha256", 3), {}),
              ("delete_if_invalid_object", (om, "00", None, 3), {}),
              ("delete_if_invalid_object", (om, "00", "sha256", "3"), {}),
              ("delete_if_invalid_object", (None, "00", "sha256", 3), {}),
              # read-only calls that succeed
              ("retrieve_object", ("pid-full",), {"_ok": True}),
              ("retrieve_metadata", ("pid-full",), {"_ok": True}),
              ("get_hex_digest", ("pid-full", "SHA-256"), {"_ok": True})]
    doc = {"ValueError", "TypeError", "UnsupportedAlgorithm", "PidRefsDoesNotExist"}
    for name, args, kw in calls:
        ok = kw.pop("_ok", False)
        before = _tree(sroot)
        out = outcome(getattr(store, name), *args, **kw)
        if out[0] == "return" and hasattr(out[1], "close"):
            out[1].close()
        after = _tree(sroot)
        what = f"{name}{args if name != 'delete_if_invalid_object' else args[1:]} {kw or ''}"
        if ok:
            if out[0] != "return":
                return True, f"{what}: read-only call failed with {out[1]}"
        else:
            if out[0] == "return":
                return True, f"{what}: invalid call accepted"
            if out[1] not in doc:
                return True, f"{what}: rejected with {out[1]} instead of a documented argument error"
        if before != after:
            diff = sorted(set(before) ^ set(after)) or [k for k in before if before[k] != after.get(k)]
            return True, f"{what}: the store changed ({diff[:3]})"
    return False, f"{len(calls)} rejected / read-only calls left the store unchanged"


def o_config_matrix(p, cfg):
    """C14: an existing store re-opens only with its exact configuration; refusals touch nothing."""
    from hashstore.filehashstore import FileHashStore
    store, props, root = new_store(cfg)
    store.store_object("p", tmp_input(root, b"x"))
    base = dict(props)
    variants = []
    for k, vals in (("store_algorithm", ["sha-256", "Sha-256", "SHA-256 ", "SHA256", "MD5", "SHA-384"]),
                    ("store_metadata_namespace", [base["store_metadata_namespace"].upper(),
                                                  base["store_metadata_namespace"] + " ", "other-ns"]),
                    ("store_depth", [base["store_depth"] + 1, str(base["store_depth"] + 1)]),
                    ("store_width", [base["store_width"] + 1])):
        for v in vals:
            if v != base[k]:
                variants.append({**base, k: v})
    before = _tree(base["store_path"])
    for v in variants:
        out = outcome(FileHashStore, v)
        if out[0] == "return":
            d = {k: v[k] for k in v if v[k] != base[k]}
            return True, f"an existing store re-opened with a different configuration: {d}"
        if _tree(base["store_path"]) != before:
            return True, "a refused constructor call modified the store"
    same = dict(base, store_depth=str(base["store_depth"]), store_width=str(base["store_width"]))
    out = outcome(FileHashStore, same)
    if out[0] != "return":
        return True, f"integer-like strings for depth/width refused: {out[1]}"
    # a store directory that lost its hashstore.yaml is refused, and the refusal creates nothing
    # (a retry must not find a configuration file written by the first, refused attempt)
    ypath = os.path.join(base["store_path"], "hashstore.yaml")
    ytext = open(ypath, "rb").read()
    os.remove(ypath)
    before2 = _tree(base["store_path"])
    for attempt in (1, 2):
        out = outcome(FileHashStore, dict(base, store_algorithm="MD5" if base["store_algorithm"] != "MD5"
                                          else "SHA-256"))
        if out[0] == "return":
            return True, (f"a directory with store data but no hashstore.yaml was opened (attempt {attempt}) "
                          "with a configuration the data was not written with")
        if _tree(base["store_path"]) != before2:
            new = sorted(set(_tree(base["store_path"])) - set(before2))
            return True, f"a refused constructor call created {new} in the store directory"
    with open(ypath, "wb") as fh:
        fh.write(ytext)
    # the configuration is what hashstore.yaml says now, not what an earlier store at the same path
    # said: remove the store, create another one at the same path with another configuration
    shutil.rmtree(base["store_path"])
    other = dict(base, store_algorithm="MD5" if base["store_algorithm"] != "MD5" else "SHA-256",
                 store_depth=base["store_depth"] + 1)
    out = outcome(FileHashStore, other)
    if out[0] != "return":
        return True, f"a new store at a re-used path is refused: {out[1]}: {out[2]}"
    s2 = out[1]
    om = s2.store_object("p2", tmp_input(root, b"y", "y.bin"))
    want = hashlib.new(layout.HASHLIB[other["store_algorithm"]], b"y").hexdigest()
    if om.cid != want:
        return True, ("a store created at a re-used path addresses objects with the algorithm of the "
                      "store that was at that path before, not with its own configuration")
    if outcome(FileHashStore, other)[0] != "return":
        return True, "a store created at a re-used path cannot be re-opened with its own configuration"
    if outcome(FileHashStore, base)[0] == "return":
        return True, "a store created at a re-used path re-opens with the earlier store's configuration"
    return False, f"{len(variants)} mismatching configurations refused, the equal one accepted, path re-use ok"


def o_client_matrix(p, cfg):
    """C20: every verb with subsets of its options (valid, invalid and empty values), run through
    the client as a subprocess on one copy of a seeded store and through the API on another copy;
    outcome (success / failure) and resulting store trees must agree."""
    import subprocess
    content = b"client matrix bytes"

    def seed():
        store, props, root = new_store(cfg)
        store.store_object("seeded", tmp_input(root, b"seeded bytes", "s.bin"))
        store.store_metadata("seeded", tmp_input(root, b"<sys/>", "s.xml"))
        store.store_metadata("seeded", tmp_input(root, b"<other/>", "o.xml"), "fmt-o")
        return store, props, root
    sha = hashlib.sha256(content).hexdigest()
    cases = []
    for algo in (None, "sha3_256", "md2"):
        for cs in (None, (sha, "SHA-256"), ("00", "sha256"), (None, "SHA-256"), (sha, None),
                   (None, "not-an-algorithm")):
            for size in (None, str(len(content)), "7", "", "abc"):
                cases.append(("storeobject", {"algo": algo, "cs": cs, "size": size}))
    for fmt in (None, "fmt-o", "", "nope"):
        cases += [("storemetadata", {"fmt": fmt}), ("retrievemetadata", {"fmt": fmt}),
                  ("deletemetadata", {"fmt": fmt})]
    for a in ("SHA-256", "md2"):
        cases.append(("getchecksum", {"algo": a}))
    cases += [("retrieveobject", {}), ("deleteobject", {})]
    for verb, o in cases[:p.get("limit", 200)]:
        store_a, props_a, root_a = seed()
        store_b, props_b, root_b = seed()
        try:
            data_a = tmp_input(root_a, content, "c.bin")
            data_b = tmp_input(root_b, content, "c.bin")
            argv = [sys.executable, "-m", "hashstore.hashstoreclient", props_a["store_path"], "-" + verb]
            if verb == "storeobject":
                argv += ["-pid=cli", "-path=" + data_a]
                kw = {}
                if o["algo"] is not None:
                    argv.append("-algo=" + o["algo"])
                    kw["additional_algorithm"] = o["algo"]
                if o["cs"] is not None:
                    if o["cs"][0] is not None:
                        argv.append("-checksum=" + o["cs"][0])
                        kw["checksum"] = o["cs"][0]
                    if o["cs"][1] is not None:
                        argv.append("-checksum_algo=" + o["cs"][1])
                        kw["checksum_algorithm"] = o["cs"][1]
                if o["size"] is not None:
                    argv.append("-obj_size=" + o["size"])
                    try:
                        kw["expected_object_size"] = int(o["size"])
                    except ValueError:
                        kw["expected_object_size"] = o["size"]      # the API rejects it too
                api = outcome(store_b.store_object, "cli", data_b, **kw)
            elif verb in ("storemetadata", "retrievemetadata", "deletemetadata"):
                pid = "cli" if verb == "storemetadata" else "seeded"
                argv.append("-pid=" + pid)
                f = o["fmt"]
                if f is not None:
                    argv.append("-formatid=" + f)
                if verb == "storemetadata":
                    argv.append("-path=" + data_a)
                    api = outcome(store_b.store_metadata, pid, data_b, f)
                elif verb == "retrievemetadata":
                    api = outcome(lambda: store_b.retrieve_metadata(pid, f).read())
                else:
                    api = outcome(store_b.delete_metadata, pid, f if f is not None
                                  else props_b["store_metadata_namespace"])
            elif verb == "getchecksum":
                argv += ["-pid=seeded", "-algo=" + o["algo"]]
                api = outcome(store_b.get_hex_digest, "seeded", o["algo"])
            elif verb == "retrieveobject":
                argv.append("-pid=seeded")
                api = outcome(lambda: store_b.retrieve_object("seeded").read())
            else:
                argv.append("-pid=seeded")
                api = outcome(store_b.delete_object, "seeded")
            r = subprocess.run(argv, capture_output=True, text=True, timeout=60, env=_child_env())
            cli_ok = r.returncode == 0
            api_ok = api[0] == "return"
            what = " ".join(a for a in argv[3:] if not a.startswith("-path"))
            if cli_ok != api_ok:
                last = (r.stderr.strip().splitlines() or [""])[-1][:150]
                return True, (f"client `{what}` {'succeeded' if cli_ok else 'failed: ' + last} but the API call "
                              f"with those values {'succeeded' if api_ok else 'raised ' + api[1]}")
            ta = {k: v for k, v in _tree(props_a["store_path"]).items()}
            tb = {k: v for k, v in _tree(props_b["store_path"]).items()}
            if ta != tb:
                diff = sorted(set(ta) ^ set(tb))[:3]
                return True, f"client `{what}` left a different store than the API call: {diff}"
        finally:
            shutil.rmtree(root_a, ignore_errors=True)
            shutil.rmtree(root_b, ignore_errors=True)
    return False, f"{len(cases)} client invocations agree with the API"


def o_observe_steps(p, cfg):
    """C09: watch every open() the library performs during store / tag / metadata / delete calls:
    a permanent file (object, metadata document, pid reference) must never be opened for writing,
    and whenever one appears it must be complete."""
    import builtins
    store, props, root = new_store(cfg)
    lay = layout.Layout(props)
    sroot = os.path.abspath(props["store_path"])
    bad = []
    real_open = builtins.open

    def permanent(path):
        pth = os.path.abspath(str(path))
        if not pth.startswith(sroot):
            return False
        rel = os.path.relpath(pth, sroot).split(os.sep)
        if rel[-1].endswith("_delete") or "tmp" in rel[:2]:
            return False
        return rel[0] in ("objects", "metadata") or rel[:2] == ["refs", "pids"]

    def f_open(file, mode="r", *a, **k):
        if isinstance(file, (str, os.PathLike)) and any(c in mode for c in "wa+") and permanent(file):
            bad.append(f"{os.path.relpath(str(file), sroot)} opened with mode {mode!r}")
        return real_open(file, mode, *a, **k)
    builtins.open = f_open
    io.open = f_open
    try:
        big = os.urandom(300000)
        store.store_object("p1", tmp_input(root, b"first", "a.bin"))
        store.store_object("p2", tmp_input(root, b"first", "b.bin"))        # additional pid
        store.store_object("p3", tmp_input(root, big, "c.bin"))
        store.tag_object("p4", hashlib.sha256(b"first").hexdigest() if props["store_algorithm"] == "SHA-256"
                         else store.store_object(None, tmp_input(root, b"first", "d.bin")).cid)
        store.store_metadata("p1", tmp_input(root, b"<v1/>", "m1.xml"))
        store.store_metadata("p1", tmp_input(root, b"<v2 longer document/>", "m2.xml"))   # overwrite
        store.store_metadata("p1", tmp_input(root, b"<v3/>", "m3.xml"))                   # shorter
        store.store_metadata("p1", tmp_input(root, b"<f/>", "m4.xml"), "fmt")
        store.delete_metadata("p1", "fmt")
        store.delete_object("p2")
        store.delete_object("p1")
    finally:
        builtins.open = real_open
        io.open = real_open
    if bad:
        return True, "a permanent file was opened for writing in place: " + "; ".join(bad[:3])
    return False, "every permanent file appeared by rename only"


def o_crash_recover(p, cfg):
    """C10: kill the process before each file-system operation of store / tag / delete; afterwards
    other pids are intact and delete_object + store_object on the interrupted pid succeed."""
    import shutil as _sh
    scen = p.get("calls", ["store-new", "store-shared", "tag", "delete-sole", "delete-shared"])
    content, other = b"crash content", b"other content"
    for sc in scen:
        for k in range(1, 40):
            store, props, root = new_store(cfg)
            lay = layout.Layout(props)
            alg = layout.HASHLIB[props["store_algorithm"]]
            cid = hashlib.new(alg, content).hexdigest()
            store.store_object("bystander", tmp_input(root, other, "o.bin"))
            if sc in ("store-shared", "delete-shared"):
                store.store_object("sharer", tmp_input(root, content, "s.bin"))
            if sc.startswith("delete"):
                store.store_object("victim", tmp_input(root, content, "v.bin"))
            data = tmp_input(root, content, "d.bin")
            before = lay.view()
            pid = os.fork()
            if pid == 0:
                n = {"c": 0}

                def bump():
                    n["c"] += 1
                    if n["c"] == k:
                        os._exit(17)
                rm, mv, mk = os.remove, _sh.move, os.makedirs
                os.remove = lambda *a, **kw: (bump(), rm(*a, **kw))[1]
                _sh.move = lambda *a, **kw: (bump(), mv(*a, **kw))[1]
                os.makedirs = lambda *a, **kw: (bump(), mk(*a, **kw))[1]
                # a crash just after a permanent file was opened for writing (truncated or
                # positioned) and before anything written to it has reached the disk
                import builtins as _b
                real_open = _b.open
                sroot = os.path.abspath(props["store_path"])

                def crash_open(file, mode="r", *a, **kw):
                    fh = real_open(file, mode, *a, **kw)
                    try:
                        ap = os.path.abspath(str(file))
                    except Exception:      # noqa: BLE001
                        return fh
                    if any(c in mode for c in "wa+") and ap.startswith(sroot + os.sep) \
                            and (os.sep + "tmp" + os.sep) not in ap[len(sroot):]:
                        bump()
                    return fh
                _b.open = crash_open
                io.open = crash_open
                try:
                    if sc.startswith("store"):
                        store.store_object("victim", data)
                    elif sc == "tag":
                        store.tag_object("victim", cid)
                    else:
                        store.delete_object("victim")
                except BaseException:
                    pass
                os._exit(0)
            _, status = os.waitpid(pid, 0)
            died = os.WIFEXITED(status) and os.WEXITSTATUS(status) == 17
            from hashstore.filehashstore import FileHashStore
            store2 = FileHashStore(props)
            after = lay.view()
            for q in ("bystander", "sharer"):
                if q in before["P"]:
                    if q not in after["P"] or after["P"][q] != before["P"][q] or \
                            before["P"][q] not in after["O"] or q not in after["C"].get(before["P"][q], []):
                        return True, f"{sc}: crash before operation {k} damaged pid {q!r}"
            r = outcome(lambda: store2.retrieve_object("victim").read())
            if r[0] == "return" and r[1] != content:
                return True, f"{sc}: crash before operation {k}: wrong bytes served for the interrupted pid"
            d = outcome(store2.delete_object, "victim")
            if d[0] != "return" and d[1] != "PidRefsDoesNotExist":
                return True, (f"{sc}: after a crash before operation {k}, delete_object(pid) fails with "
                              f"{d[1]}: {d[2][:120]}")
            s3 = outcome(store2.store_object, "victim", data)
            if s3[0] != "return":
                return True, (f"{sc}: after a crash before operation {k} and delete_object, "
                              f"store_object(pid) fails with {s3[1]}: {s3[2][:120]}")
            shutil.rmtree(root, ignore_errors=True)
            if not died:
                break
    return False, "recovery works after a crash at every operation of the five calls"


def o_race_same_pid_store(p, cfg):
    """C07 / C08: two store_object calls on one pid; the second is rejected as in progress; the
    first completes and nothing stays locked."""
    from hashstore.filehashstore import FileHashStore
    store, props, root = new_store(cfg)
    real = FileHashStore._store_and_validate_data
    at_point, resume = threading.Event(), threading.Event()
    state = {"armed": True}

    def wrapped(self, *a, **k):
        if state["armed"] and threading.current_thread().name == "A-thread":
            state["armed"] = False
            at_point.set()
            resume.wait(10)
        return real(self, *a, **k)
    FileHashStore._store_and_validate_data = wrapped
    res = {}

    def ta():
        res["A"] = outcome(store.store_object, "same", tmp_input(root, b"aaa", "a.bin"))
    t = threading.Thread(target=ta, name="A-thread", daemon=True)
    t.start()
    reached = at_point.wait(10)
    if reached:
        res["B"] = outcome(store.store_object, "same", tmp_input(root, b"aaa", "b.bin"))
    resume.set()
    t.join(10)
    FileHashStore._store_and_validate_data = real
    if not reached:
        return None, "pause point not reached"
    a = "ok" if res["A"][0] == "return" else res["A"][1]
    b = "ok" if res["B"][0] == "return" else res["B"][1]
    if a != "ok" or b not in ("StoreObjectForPidAlreadyInProgress", "HashStoreRefsAlreadyExists"):
        return True, f"two store_object calls on one pid: outcomes (first={a}, second={b})"
    left = [l for l in (store.object_locked_pids_th, store.object_locked_cids_th,
                        store.reference_locked_pids_th) if len(l)]
    if left:
        return True, f"identifiers left locked after the calls: {left}"
    return False, "first stored, second rejected, nothing left locked"


def o_race_store_meta_delete_all(p, cfg):
    """C12: store_metadata(pid, f) paused just before it publishes its document while
    delete_metadata(pid) / delete_object(pid) runs: no storing call may fail with an error a
    sequential run cannot produce."""
    import shutil as _sh
    for pre in (False, True):
        store, props, root = new_store(cfg)
        if pre:
            store.store_metadata("p", tmp_input(root, b"<other/>", "o.xml"), "fmt-other")
        real_move = _sh.move
        at_point, resume = threading.Event(), threading.Event()
        state = {"armed": True}

        def f_move(src, dst, *a, **k):
            if state["armed"] and threading.current_thread().name == "A-thread" and \
                    os.sep + "metadata" + os.sep in str(dst) and "tmp" not in str(dst).split(os.sep)[-2]:
                state["armed"] = False
                at_point.set()
                resume.wait(10)
            return real_move(src, dst, *a, **k)
        _sh.move = f_move
        res = {}

        def ta():
            res["A"] = outcome(store.store_metadata, "p", tmp_input(root, b"<new/>", "n.xml"), "fmt-a")
        t = threading.Thread(target=ta, name="A-thread", daemon=True)
        t.start()
        reached = at_point.wait(10)
        if reached:
            res["B"] = outcome(store.delete_metadata, "p")
        resume.set()
        t.join(10)
        _sh.move = real_move
        if not reached:
            return None, "pause point not reached"
        a = "ok" if res["A"][0] == "return" else res["A"][1]
        b = "ok" if res["B"][0] == "return" else res["B"][1]
        if a != "ok" or b != "ok":
            return True, (f"store_metadata paused before publishing its document, delete_metadata(pid) "
                          f"ran: outcomes (store={a}, delete-all={b}); sequentially both succeed")
        shutil.rmtree(root, ignore_errors=True)
    return False, "store and delete-all both succeeded under the preemption"


def o_digest_history(p, cfg):
    """C02: get_hex_digest is true for every supported algorithm and spelling, whatever was
    stored under the pid before."""
    store, props, root = new_store(cfg)
    spell = {}
    for n in ["md5", "sha1", "sha256", "sha384", "sha512", "sha224", "sha3_224", "sha3_256",
              "sha3_384", "sha3_512", "blake2b", "blake2s"]:
        spell[n] = {n, n.upper(), n.replace("_", "-"), n.upper().replace("_", "-")}
    for d, n in (("MD5", "md5"), ("SHA-1", "sha1"), ("SHA-256", "sha256"), ("SHA-384", "sha384"),
                 ("SHA-512", "sha512")):
        spell[n] |= {d, d.lower(), d.replace("-", "_")}
    for rnd, content in enumerate((b"first content", b"second content")):
        store.store_object("pid-h", tmp_input(root, content, f"h{rnd}.bin"))
        for n, sps in spell.items():
            want = hashlib.new(n, content).hexdigest()
            for sp in sorted(sps):
                out = outcome(store.get_hex_digest, "pid-h", sp)
                if out[0] != "return":
                    return True, f"get_hex_digest(pid, {sp!r}) raised {out[1]}"
                if out[1] != want:
                    return True, (f"get_hex_digest(pid, {sp!r}) returns a digest that is not the digest "
                                  f"of the stored content (round {rnd + 1}: after delete_object and a new "
                                  "store_object the digest of the earlier content is returned)" )
        store.delete_object("pid-h")
    return False, "digests true for every algorithm and spelling across a delete / re-store"


def o_identifier_pool(p, cfg):
    """C18 / C15: identifiers are opaque.  For a pool of identifiers that differ only in ways a
    normalising implementation would erase (Unicode composition, case, inner / outer whitespace
    variants that are accepted, prefixes, path-like text) the hash-derived addresses must be the
    digest of exactly the UTF-8 bytes, and two distinct identifiers never share a pid reference or a
    metadata document."""
    store, props, root = new_store(cfg)
    lay = layout.Layout(props)
    alg = layout.HASHLIB[props["store_algorithm"]]
    pool = ["caf\u00e9.1", "cafe\u0301.1", "\u2126-id", "\u03a9-id", "\uac00", "\u1100\u1161",
            "Doi:10.1/AB", "doi:10.1/ab", "a", "ab", "a/b", "a/../b", "x;rm$-rf&&", "\ufb01le", "file",
            "\u00c5", "A\u030a", "\u212b"]
    for s_ in pool:
        want = hashlib.new(alg, s_.encode("utf-8")).hexdigest()
        got = store._computehash(s_)
        if got != want:
            return True, (f"_computehash({s_!r}) is {got[:12]}.., the {alg} digest of its UTF-8 bytes is "
                          f"{want[:12]}..: the address of an identifier is not derived from the identifier itself")
    docs = {}
    for i, s_ in enumerate(pool):
        out = outcome(store.store_metadata, s_, tmp_input(root, f"<doc {i}/>".encode(), f"ip{i}.xml"), "fmt")
        if out[0] != "return":
            return True, f"store_metadata({s_!r}) raised {out[1]}"
        docs[s_] = f"<doc {i}/>".encode()
    for s_, want in docs.items():
        with store.retrieve_metadata(s_, "fmt") as fh:
            got = fh.read()
        if got != want:
            return True, (f"retrieve_metadata({s_!r}) returns the document stored for another identifier "
                          f"({got!r}): two distinct identifiers alias")
    for i, s_ in enumerate(pool):
        out = outcome(store.store_object, s_, tmp_input(root, f"content {i}".encode(), f"io{i}.bin"))
        if out[0] != "return":
            return True, f"store_object({s_!r}) of fresh content raised {out[1]}: {out[2]}"
    v = lay.view()
    for i, s_ in enumerate(pool):
        c = hashlib.new(alg, f"content {i}".encode()).hexdigest()
        if s_ not in v["P"] or v["P"][s_] != c:
            return True, f"pid {s_!r} does not name its own object after the stores"
    return False, f"{len(pool)} look-alike identifiers keep separate addresses"


def o_refs_helper_pool(p, cfg):
    """C05 / C10 / C15 at the helper level: _update_refs_file on every small reference list (the
    empty list included: delete_object leaves it for a moment, a crash leaves it for good) must add
    / remove exactly the one identifier and keep one identifier per newline-terminated line."""
    store, props, root = new_store(cfg)
    pool = ["ab", "a", "doi:10.1/ab", "b"]
    n = 0
    for lines in ([], ["ab"], ["a", "b"], ["doi:10.1/ab", "ab"], ["b", "a", "ab"]):
        for op in ("add", "remove"):
            for ref in pool:
                path = Path(root) / "refs" / "tmp" / f"pool-{n}"
                n += 1
                os.makedirs(path.parent, exist_ok=True)
                with open(path, "w", encoding="utf8") as fh:
                    fh.write("".join(x + "\n" for x in lines))
                out = outcome(store._update_refs_file, path, ref, op)
                want = list(lines)
                if op == "add" and ref not in want:
                    want.append(ref)
                if op == "remove":
                    want = [x for x in want if x != ref]
                if out[0] != "return":
                    return True, (f"_update_refs_file({lines!r}, {ref!r}, {op!r}) raised {out[1]}: {out[2]}; "
                                  f"the reference list must become {want!r}")
                with open(path, "r", encoding="utf8") as fh:
                    raw = fh.read()
                got = raw.split("\n")[:-1] if raw else []
                if sorted(got) != sorted(want) or (raw and not raw.endswith("\n")):
                    return True, (f"_update_refs_file({lines!r}, {ref!r}, {op!r}) leaves {raw!r}; "
                                  f"the reference list must become {want!r}")
                os.remove(path)
    return False, f"{n} helper calls leave exactly the expected reference list"


def o_race_wakeup(p, cfg):
    """C07 / C08 / C16 wait loops: T1 holds identifier X (paused inside its critical section), T2
    waits for X, a third call on an unrelated identifier Y completes and notifies; T2 must still be
    waiting (a waiter that does not re-check its condition enters X's critical section)."""
    import threading
    import time as _t
    if p.get("mp"):
        os.environ["USE_MULTIPROCESSING"] = "True"
    try:
        store, props, root = new_store(cfg)
    finally:
        os.environ.pop("USE_MULTIPROCESSING", None)
    kind = p.get("class", "cid")
    cx = store.store_object(None, tmp_input(root, b"content X", "x.bin")).cid
    cy = store.store_object(None, tmp_input(root, b"content Y", "y.bin")).cid
    entered, gate = threading.Event(), threading.Event()
    real_move = shutil.move

    def slow_move(src, dst, *a, **k):
        if threading.current_thread().name == "T1" and not entered.is_set():
            entered.set()
            gate.wait(15)
        return real_move(src, dst, *a, **k)
    res = {}

    def run(name, f, *a):
        res[name] = outcome(f, *a)
    shutil.move = slow_move
    try:
        if kind == "cid":
            calls = [(store.tag_object, "pid-1", cx), (store.tag_object, "pid-2", cx),
                     (store.tag_object, "pid-3", cy)]
        else:      # pid-keyed locks: the same pid from two threads, another pid in between
            calls = [(store.store_metadata, "pid-1", tmp_input(root, b"<a/>", "a.xml"), "f1"),
                     (store.store_metadata, "pid-1", tmp_input(root, b"<b/>", "b.xml"), "f1"),
                     (store.store_metadata, "pid-3", tmp_input(root, b"<c/>", "c.xml"), "f1")]
        t1 = threading.Thread(target=run, args=("T1",) + calls[0], name="T1", daemon=True)
        t1.start()
        if not entered.wait(10):
            return None, "T1 never reached its first rename"
        t2 = threading.Thread(target=run, args=("T2",) + calls[1], name="T2", daemon=True)
        t2.start()
        _t.sleep(0.4)
        if not t2.is_alive():
            return True, "T2 did not wait for the identifier T1 holds"
        run("T3", *calls[2])
        t2.join(1.5)
        early = not t2.is_alive()
        gate.set()
        t1.join(15)
        t2.join(15)
    finally:
        gate.set()
        shutil.move = real_move
    if t1.is_alive() or t2.is_alive():
        return True, "a call never finished after the holder released"
    if early:
        return True, (f"T2 entered the critical section of {kind} X while T1 still held it: it was woken "
                      f"by the release of an unrelated {kind} and did not re-check (outcomes {res['T1'][0]}, "
                      f"{res['T2'][0]}, {res['T3'][0]})")
    return False, "T2 kept waiting until T1 released"


def o_race_meta_pause(p, cfg):
    """C12 W-Meta: thread A is paused at its first rename / remove of one metadata document; a
    second call that writes the same document must wait until A is done (it must hold the lock of
    that very document)."""
    import threading
    pid, fmt = "pid-1", "fmt-x"
    pairs = [("delete_all", "delete_one"), ("delete_all", "store_one"), ("delete_object", "delete_one"),
             ("delete_one", "delete_all"), ("store_one", "delete_all")]
    for a_name, b_name in pairs:
        store, props, root = new_store(cfg)
        store.store_object(pid, tmp_input(root, b"object bytes", "o.bin"))
        store.store_metadata(pid, tmp_input(root, b"<sys/>", "s.xml"))
        store.store_metadata(pid, tmp_input(root, b"<x/>", "x.xml"), fmt)
        target = store._computehash(pid + fmt)
        newdoc = tmp_input(root, b"<x2/>", "x2.xml")
        ops = {"delete_all": lambda: store.delete_metadata(pid),
               "delete_one": lambda: store.delete_metadata(pid, fmt),
               "store_one": lambda: store.store_metadata(pid, newdoc, fmt),
               "delete_object": lambda: store.delete_object(pid)}
        entered, gate, b_done = threading.Event(), threading.Event(), threading.Event()
        real_move, real_remove = shutil.move, os.remove

        def hit(path):
            return threading.current_thread().name == "A" and not entered.is_set() and \
                os.path.basename(str(path)).startswith(target)

        def slow_move(src, dst, *a, **k):
            if hit(src) or hit(dst):
                entered.set()
                gate.wait(10)
            return real_move(src, dst, *a, **k)

        def slow_remove(path, *a, **k):
            if hit(path):
                entered.set()
                gate.wait(10)
            return real_remove(path, *a, **k)
        res = {}

        def run(name, f):
            res[name] = outcome(f)
            if name == "B":
                b_done.set()
        shutil.move, os.remove = slow_move, slow_remove
        try:
            ta = threading.Thread(target=run, args=("A", ops[a_name]), name="A", daemon=True)
            ta.start()
            if not entered.wait(5):
                gate.set()
                ta.join(10)
                continue
            tb = threading.Thread(target=run, args=("B", ops[b_name]), name="B", daemon=True)
            tb.start()
            early = b_done.wait(1.5)
            gate.set()
            ta.join(10)
            tb.join(10)
        finally:
            gate.set()
            shutil.move, os.remove = real_move, real_remove
        if early:
            return True, (f"{b_name} on document (pid, {fmt}) ran to completion ({res['B'][0]}"
                          f"{' ' + res['B'][1] if res['B'][0] == 'raise' else ''}) while {a_name} was in the "
                          f"middle of renaming / removing that document: {a_name} does not hold that "
                          f"document's lock (A then ended with {res.get('A', ('?',))[0]}"
                          f"{' ' + res['A'][1] if res.get('A', ('',))[0] == 'raise' else ''})")
        shutil.rmtree(root, ignore_errors=True)
    return False, f"{len(pairs)} pairs: the second writer of the document always waited"


def o_mp_fork_wait(p, cfg):
    """C16: in multiprocessing mode a call that waits for an identifier held by ANOTHER PROCESS is
    woken when that process releases it (and not before)."""
    import threading
    import time as _t
    os.environ["USE_MULTIPROCESSING"] = "True"
    try:
        store, props, root = new_store(cfg)
    finally:
        os.environ.pop("USE_MULTIPROCESSING", None)
    pid, fmt = "pid-mp", "fmt-mp"
    d1, d2 = tmp_input(root, b"<one/>", "m1.xml"), tmp_input(root, b"<two/>", "m2.xml")
    marker = os.path.join(root, "child-in-critical-section")
    child = os.fork()
    if child == 0:
        try:
            real_move = shutil.move

            def slow_move(src, dst, *a, **k):
                open(marker, "w").close()
                _t.sleep(2.0)
                return real_move(src, dst, *a, **k)
            shutil.move = slow_move
            store.store_metadata(pid, d1, fmt)
        finally:
            os._exit(0)
    t0 = _t.time()
    while not os.path.exists(marker) and _t.time() - t0 < 10:
        _t.sleep(0.05)
    if not os.path.exists(marker):
        os.kill(child, 9)
        os.waitpid(child, 0)
        return None, "the child never entered its critical section"
    res = {}
    done = threading.Event()

    def run():
        res["out"] = outcome(store.store_metadata, pid, d2, fmt)
        res["t"] = _t.time()
        done.set()
    t_start = _t.time()
    th = threading.Thread(target=run, daemon=True)
    th.start()
    finished = done.wait(12)
    try:
        os.waitpid(child, 0)
    except ChildProcessError:
        pass
    if not finished:
        return True, ("store_metadata in the parent process waited for a document held by a child process "
                      "and was never woken after the child released it (blocked > 10 s after release)")
    if res["t"] - t_start < 1.0:
        return True, "the parent did not wait for the document held by the child process"
    if res["out"][0] != "return":
        return True, f"the waiting call ended with {res['out'][1]}"
    return False, "the waiting process was woken by the release in the other process"


def o_store_with_cwd_decoy(p, cfg):
    """C01 without the working-directory assumption: the process's cwd holds a file that is named
    like the digest of the content being stored (stale bytes, or the very file that is ingested by
    its relative name); the bytes must end up inside the store and come back unchanged."""
    store, props, root = new_store(cfg)
    lay = layout.Layout(props)
    alg = layout.HASHLIB[props["store_algorithm"]]
    content = b"content whose digest names a file in the working directory"
    cid = hashlib.new(alg, content).hexdigest()
    scratch = os.path.join(root, "scratch")
    os.makedirs(scratch)
    old = os.getcwd()
    os.chdir(scratch)
    try:
        with open(cid, "wb") as fh:
            fh.write(b"stale bytes under the same name")
        out = outcome(store.store_object, "pid-decoy", tmp_input(root, content, "real.bin"))
        if out[0] != "return":
            return True, f"store_object raised {out[1]}: {out[2]}"
        if cid not in lay.view()["O"]:
            return True, ("store_object reported success but no object was written inside the store: a file "
                          "of the working directory that is named like the cid was taken for the object")
        got = store.retrieve_object("pid-decoy").read()
        if got != content:
            return True, "retrieve_object returns the bytes of a file outside the store"
        # ingest a file by a relative name that is its own digest
        c2 = b"ingested by its own digest as relative name"
        d2 = hashlib.new(alg, c2).hexdigest()
        with open(d2, "wb") as fh:
            fh.write(c2)
        out = outcome(store.store_object, "pid-self", d2)
        if out[0] != "return":
            return True, f"store_object(relative name) raised {out[1]}: {out[2]}"
        if d2 not in lay.view()["O"]:
            return True, "a file ingested by a relative name equal to its digest was not copied into the store"
    finally:
        os.chdir(old)
    shutil.rmtree(scratch, ignore_errors=True)
    got = outcome(lambda: store.retrieve_object("pid-self").read())
    if got[0] != "return" or got[1] != c2:
        return True, "the ingested bytes are not retrievable once the working directory is gone"
    return False, "objects are stored inside the store whatever the working directory holds"


def o_uppercase_cid(p, cfg):
    """C04 / C15: a cid handed to tag_object / delete_if_invalid_object in upper case is another
    identifier than the lower-case digest: nothing done through it may remove the object that the
    lower-case cid names while pids still reference it."""
    from hashstore.filehashstore import ObjectMetadata
    store, props, root = new_store(cfg)
    lay = layout.Layout(props)
    alg = layout.HASHLIB[props["store_algorithm"]]
    x = b"shared content X"
    cid = hashlib.new(alg, x).hexdigest()
    store.store_object("pid-a", tmp_input(root, x, "a.bin"))
    store.store_object("pid-b", tmp_input(root, x, "b.bin"))
    out = outcome(store.tag_object, "pid-c", cid.upper())
    if out[0] == "return":
        outcome(store.delete_object, "pid-c")
    if cid not in lay.view()["O"]:
        return True, ("tag_object(pid-c, CID in upper case) + delete_object(pid-c) removed the object that "
                      "pid-a and pid-b still reference")
    hd = {a: hashlib.new(a, x).hexdigest() for a in ("md5", "sha1", "sha256", "sha384", "sha512")}
    om = ObjectMetadata("HashStoreNoPid", cid.upper(), len(x), hd)
    outcome(store.delete_if_invalid_object, om, hd["sha256"], "sha256", len(x) + 1)
    if cid not in lay.view()["O"]:
        return True, ("delete_if_invalid_object with the cid in upper case and a wrong size removed the "
                      "object that pid-a and pid-b still reference")
    got = outcome(lambda: store.retrieve_object("pid-a").read())
    if got[0] != "return" or got[1] != x:
        return True, "pid-a no longer retrieves its bytes"
    return False, "an upper-case spelling of a cid never reaches the lower-case cid's object"


def o_race_slow_store_meta(p, cfg):
    """C12 / C09: store_metadata fed by a stream that stalls half-way, while delete_metadata(pid)
    (delete all) or delete_object(pid) runs on the same pid: the storing call must not fail, nothing
    half-written may be taken for a document, and the final document is absent or complete."""
    import threading
    import time as _t

    class Slow(io.BytesIO):
        def __init__(self, data, gate, stalled):
            super().__init__(data)
            self.gate, self.stalled, self.n = gate, stalled, 0

        def read(self, size=-1):
            self.n += 1
            if self.n == 2:
                self.stalled.set()
                self.gate.wait(10)
            half = max(1, len(self.getvalue()) // 2)
            return super().read(half if self.n == 1 else size)
    doc = b"<document>" + b"x" * 4000 + b"</document>"
    for other in ("delete_all", "delete_object"):
        store, props, root = new_store(cfg)
        pid, fmt = "pid-slow", "fmt-slow"
        store.store_object(pid, tmp_input(root, b"object bytes", "o.bin"))
        gate, stalled = threading.Event(), threading.Event()
        res = {}

        def run():
            res["A"] = outcome(store.store_metadata, pid, Slow(doc, gate, stalled), fmt)
        t = threading.Thread(target=run, daemon=True)
        t.start()
        if not stalled.wait(10):
            gate.set()
            t.join(10)
            return None, "the storing call never stalled"
        b = outcome(store.delete_metadata, pid) if other == "delete_all" else outcome(store.delete_object, pid)
        gate.set()
        t.join(15)
        if t.is_alive():
            return True, "store_metadata never finished"
        if res["A"][0] != "return":
            return True, (f"store_metadata failed with {res['A'][1]} ({res['A'][2][:100]}) because a concurrent "
                          f"{other} on the same pid took its half-written temporary file for a document")
        if b[0] != "return":
            return True, f"{other} failed with {b[1]} while a store_metadata of the same pid was in progress"
        got = outcome(lambda: store.retrieve_metadata(pid, fmt).read())
        if got[0] == "return" and got[1] != doc:
            return True, "a partial metadata document is retrievable"
        shutil.rmtree(root, ignore_errors=True)
    return False, "a stalled store_metadata and a concurrent delete-all / delete_object do not disturb each other"


def o_race_lock_order(p, cfg):
    """C08 lock order: tag_object(pid, cid) is paused after it took the reference-pid lock and
    before it takes the cid lock; delete_object(pid) runs meanwhile.  With one global lock order both
    calls finish; an inverted order leaves both waiting for each other for good."""
    import threading
    store, props, root = new_store(cfg)
    alg = layout.HASHLIB[props["store_algorithm"]]
    content = b"lock order content"
    cid = hashlib.new(alg, content).hexdigest()
    store.store_object("pid-lo", tmp_input(root, content, "lo.bin"))
    real = store._synchronize_object_locked_cids
    at_point, gate = threading.Event(), threading.Event()

    def paused(c):
        if threading.current_thread().name == "T-tag" and not at_point.is_set():
            at_point.set()
            gate.wait(10)
        return real(c)
    store._synchronize_object_locked_cids = paused
    res = {}
    t1 = threading.Thread(target=lambda: res.__setitem__("tag", outcome(store.tag_object, "pid-lo", cid)),
                          name="T-tag", daemon=True)
    t1.start()
    if not at_point.wait(10):
        return None, "tag_object never reached the cid lock"
    t2 = threading.Thread(target=lambda: res.__setitem__("del", outcome(store.delete_object, "pid-lo")),
                          name="T-del", daemon=True)
    t2.start()
    t2.join(3)
    gate.set()
    t1.join(8)
    t2.join(8)
    if t1.is_alive() or t2.is_alive():
        return True, ("tag_object(pid, cid) and delete_object(pid) wait for each other for good: one holds the "
                      f"reference-pid lock and wants the cid lock, the other the reverse (still locked: "
                      f"{_held_identifiers(store)})")
    held = _held_identifiers(store)
    if held:
        return True, f"identifiers left locked after both calls returned: {held}"
    return False, f"both calls finished ({res['tag'][0]}, {res['del'][0]})"


def o_race_cid_pause(p, cfg):
    """C07 W-CidRef / W-Obj: delete_object(pid1) of the sole reference is paused at the rename of the
    (emptied) cid reference file; tag_object(pid2, cid) on the same cid must wait until the delete is
    done - otherwise the delete removes a reference list that names pid2, and the object."""
    import threading
    store, props, root = new_store(cfg)
    lay = layout.Layout(props)
    alg = layout.HASHLIB[props["store_algorithm"]]
    content = b"cid pause content"
    cid = hashlib.new(alg, content).hexdigest()
    store.store_object("pid-1", tmp_input(root, content, "c1.bin"))
    cids_dir = os.path.join(os.path.abspath(props["store_path"]), "refs", "cids") + os.sep
    entered, gate, done2 = threading.Event(), threading.Event(), threading.Event()
    real_move = shutil.move

    def slow_move(src, dst, *a, **k):
        if threading.current_thread().name == "T-del" and not entered.is_set() and \
                os.path.abspath(str(src)).startswith(cids_dir):
            entered.set()
            gate.wait(10)
        return real_move(src, dst, *a, **k)
    res = {}

    def tag():
        res["tag"] = outcome(store.tag_object, "pid-2", cid)
        done2.set()
    shutil.move = slow_move
    try:
        t1 = threading.Thread(target=lambda: res.__setitem__("del", outcome(store.delete_object, "pid-1")),
                              name="T-del", daemon=True)
        t1.start()
        if not entered.wait(10):
            gate.set()
            t1.join(10)
            return None, "delete_object never renamed the cid reference file"
        t2 = threading.Thread(target=tag, name="T-tag", daemon=True)
        t2.start()
        early = done2.wait(1.5)
        gate.set()
        t1.join(10)
        t2.join(10)
    finally:
        gate.set()
        shutil.move = real_move
    if early:
        v = lay.view()
        return True, ("tag_object(pid-2, cid) ran to completion while delete_object(pid-1) was between emptying "
                      "and removing the cid reference file: the delete does not hold the cid lock there "
                      f"(afterwards pid-2 bound={'pid-2' in v['P']}, listed={'pid-2' in v['C'].get(cid, [])}, "
                      f"object present={cid in v['O']})")
    return False, "the tagger waited until the delete was done"


def o_meta_overwrite_reader(p, cfg):
    """C12 (lock-free reader): retrieve_metadata is issued at every file-system mutation that an
    overwriting store_metadata performs on the metadata tree (just before the primitive runs, i.e.
    between two primitives).  Every sequential order of store(v2) and retrieve on a present document
    yields v1 or v2; a not-found error or other bytes is a non-linearizable observation."""
    import hashstore.filehashstore as fhs
    store, props, root = new_store(cfg)
    pid, fmt = "pid-overwrite", "fmt-overwrite"
    v1, v2 = b"<v1>" + b"a" * 3000 + b"</v1>", b"<v2>" + b"b" * 5000 + b"</v2>"
    store.store_metadata(pid, io.BytesIO(v1), fmt)
    seen = []
    real = {"move": shutil.move, "remove": os.remove, "unlink": os.unlink, "rename": os.rename,
            "replace": os.replace}
    busy = {"on": False}

    def observe(where):
        if busy["on"]:
            return
        busy["on"] = True
        try:
            def rd():
                s = store.retrieve_metadata(pid, fmt)
                try:
                    return s.read()
                finally:
                    s.close()
            seen.append((where, outcome(rd)))
        finally:
            busy["on"] = False

    def wrap(name):
        def f(*a, **k):
            observe(f"before {name}({', '.join(os.path.basename(str(x)) for x in a[:2])})")
            r = real[name](*a, **k)
            observe(f"after {name}")
            return r
        return f
    shutil.move, os.remove, os.unlink = wrap("move"), wrap("remove"), wrap("unlink")
    os.rename, os.replace = wrap("rename"), wrap("replace")
    try:
        res = outcome(store.store_metadata, pid, io.BytesIO(v2), fmt)
    finally:
        shutil.move, os.remove, os.unlink = real["move"], real["remove"], real["unlink"]
        os.rename, os.replace = real["rename"], real["replace"]
    shutil.rmtree(root, ignore_errors=True)
    if res[0] != "return":
        return None, f"the overwriting store_metadata failed: {res[1]}"
    bad = [(w, o) for w, o in seen if o[0] != "return" or o[1] not in (v1, v2)]
    if bad:
        w, o = bad[0]
        what = f"{o[1]}" if o[0] == "raise" else f"{len(o[1])} bytes that are neither version"
        return True, (f"retrieve_metadata issued {w} during store_metadata(pid, v2) over an existing document "
                      f"got {what}; no sequential order of the two calls gives that")
    return False, f"{len(seen)} reads between the primitives of the overwrite all returned v1 or v2"


ORACLES["race_cid_pause"] = o_race_cid_pause
ORACLES["meta_overwrite_reader"] = o_meta_overwrite_reader
ORACLES["race_lock_order"] = o_race_lock_order
ORACLES["race_slow_store_meta"] = o_race_slow_store_meta
ORACLES["uppercase_cid"] = o_uppercase_cid
ORACLES["store_with_cwd_decoy"] = o_store_with_cwd_decoy
ORACLES["mp_fork_wait"] = o_mp_fork_wait
ORACLES["race_meta_pause"] = o_race_meta_pause
ORACLES["race_wakeup"] = o_race_wakeup
ORACLES["refs_helper_pool"] = o_refs_helper_pool
ORACLES["identifier_pool"] = o_identifier_pool
ORACLES["race_store_meta_delete_all"] = o_race_store_meta_delete_all
ORACLES["digest_history"] = o_digest_history
ORACLES["observe_steps"] = o_observe_steps
ORACLES["crash_recover"] = o_crash_recover
ORACLES["race_same_pid_store"] = o_race_same_pid_store
ORACLES["client_matrix"] = o_client_matrix
ORACLES["verdict_matrix"] = o_verdict_matrix
ORACLES["reject_matrix"] = o_reject_matrix
ORACLES["config_matrix"] = o_config_matrix


if __name__ == "__main__":
    main()
