"""./check <prop> --replay <scenario.json>: re-run a recorded scenario on the working tree."""
import json
import os
import sys

ROOT = os.path.dirname(os.path.dirname(os.path.abspath(__file__)))


def main(path):
    from replay import concretize
    with open(path) as fh:
        sc = json.load(fh)
    if not sc.get("oracle"):
        print(f"no runnable scenario in {path}: obligation {sc.get('obligation')} at "
              f"{sc.get('site')} (no-failing-input-found); solver output is in the file")
        return 1
    res = concretize.run_driver(path, ROOT)
    print(json.dumps(res))
    if res.get("reproduced") is True:
        print(f"VIOLATION property={sc['property']} replay={path}")
        return 1
    return 0 if res.get("reproduced") is False else 3
