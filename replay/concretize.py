"""From a refuted obligation and the solver's counter-model to a native scenario, and its replay.

replay_refutation returns (verdict, path):
  reproduced               the scenario fails on the real code (property-level oracle)
  no-failing-input-found   no scenario could be derived, or no concretiser exists for the site
  spurious                 a scenario was derived and the real code satisfies the property on it
The scenario file always names the obligation and carries the solver's model.
"""
import hashlib
import json
import os
import subprocess

VENV_PY = "/venv/bin/python"
DEFAULT_CFG = {"depth": 3, "width": 2, "algorithm": "SHA-256", "namespace": "ns1"}


def _hex(s):
    return s.encode("utf-8", "replace").hex()


def concretize(prop, ob):
    """-> list of candidate (oracle, params)"""
    site = ob.get("site") or ""
    name = ob["name"]
    model = ob.get("model") or {}
    detail = ob.get("detail") or ""
    fn = site.split("[")[0]
    case = site[site.index("[") + 1:-1] if "[" in site else ""
    out = []
    kinds = [k for k in ("str", "Path", "file", "BytesIO") if case.startswith(k)]
    if fn in ("Stream.__init__", "FileHashStore._store_and_validate_data",
              "FileHashStore._store_data_only", "FileHashStore._put_metadata",
              "FileHashStore._write_to_tmp_file_and_get_hex_digests",
              "FileHashStore._mktmpmetadata") and kinds:
        out.append(("store_roundtrip", {"kind": kinds[0], "offset": max(0, model.get("stream_pos0", 0) or 0) % 4}))
    if short_name(fn) in ("_move_and_get_checksums", "_store_and_validate_data", "_store_data_only",
                          "store_object") and "post/" in name:
        out.append(("store_with_cwd_decoy", {}))
    if fn == "FileHashStore.store_object" and kinds and "post/outcome" in name:
        out.append(("store_roundtrip", {"kind": kinds[0]}))
    if "_refine_algorithm_list" in fn or (fn == "FileHashStore.store_object" and "frame-self" in name) \
            or "_write_to_tmp_file_and_get_hex_digests" in fn and "frame-self" in name:
        for key in ("checksum_algorithm!s", "additional_algorithm!s"):
            a = model.get(key)
            if a in ("sha224", "sha3_224", "sha3_256", "sha3_384", "sha3_512", "blake2b", "blake2s"):
                out.append(("digest_keys_independent", {"first": {"additional_algorithm": a}}))
        out.append(("digest_keys_independent", {"first": {"additional_algorithm": "sha3_256"}}))
    if fn == "FileHashStore.delete_object" and "post/" in name:
        for st in ("object-missing", "bound", "bound-shared"):
            out.append(("delete_total", {"state": st}))
    if fn in ("FileHashStore._verify_object_information", "FileHashStore.delete_if_invalid_object"):
        alg = model.get("checksum_algorithm!s") or "sha3_256"
        cs = model.get("checksum!s") or ""
        upper = any(ch.isupper() for ch in cs) or True
        for a in dict.fromkeys([alg, "sha3_256", "sha224", "sha256"]):
            out.append(("valid_not_deleted", {"algorithm": a, "upper": True}))
            out.append(("valid_not_deleted", {"algorithm": a, "upper": False}))
    if name == "sync/acquired-identifier-is-free" and "class doc" in detail:
        out.append(("metadata_exclusion", {}))
    if fn == "FileHashStore.__init__" and "frame-self" in name:
        out.append(("mp_mode", {}))
        if "condition" in detail or "lock" in detail:
            out.append(("mp_fork_wait", {}))
    if "W-Obj-written-under-its-cid-lock" in name or name.endswith("one-guard/Obj"):
        out.append(("race_store_delete", {}))
    if "W-CidRef" in name or name.endswith("one-guard/CidRef") or "R-coverage/CidRef" in name \
            or "R-coverage/Obj" in name:
        out.append(("race_cid_pause", {}))
    if "W-Meta" in name or name.endswith("one-guard/Meta"):
        out.append(("race_meta_pause", {}))
    if "W-PidRef" in name or name.endswith("one-guard/PidRef"):
        out.append(("race_tag_delete", {}))
    if name.startswith("main/store_object/arg:object_size"):
        out.append(("client_cli", {"argv": ["-storeobject", "-pid=cli-pid", "-path={data}",
                                            "-obj_size={size}"], "expect_bound": "cli-pid"}))
    if "R1-overwritten-document-is-replaced-never-removed" in name:
        out.append(("meta_overwrite_reader", {}))
    if "temporary-files-only-in-tmp-areas" in name:
        out.append(("race_slow_store_meta", {}))
    if "directories-are-never-removed" in name:
        out.append(("race_store_meta_delete_all", {}))
    if short_name(fn) in ("_build_hashstore_data_object_path", "_get_hashstore_cid_refs_path",
                          "_get_hashstore_data_object_path", "_delete_object_only"):
        out.append(("uppercase_cid", {}))
    if short_name(fn) in ("_computehash", "_get_hashstore_pid_refs_path", "_check_string") \
            or "path/" in name:
        out.append(("identifier_pool", {}))
    if short_name(fn) in ("get_hex_digest", "_computehash") or (prop == "C02" and "post/" in name
                                                                 and "store_object" not in fn):
        out.append(("digest_history", {}))
    if name.startswith("steps/") and "/S" in name:
        out.append(("observe_steps", {}))
    if prop == "C10" or "recover" in name or (short_name(fn) == "delete_object" and "outcome" in name):
        out.append(("crash_recover", {}))
    if "loop-foreach/locks-restored" in name or "vanished-entry" in name:
        out.append(("race_delete_all_metadata", {}))
    if short_name(fn) == "store_object" and ("post/locks" in name or "releases-held" in name
                                             or "release-only-own" in name):
        out.append(("race_same_pid_store", {}))
    if "/pre:lock-order" in name or "/pre:not-already-held" in name:
        out.append(("race_lock_order", {}))
    if name == "sync/acquired-identifier-is-free":
        out.append(("race_wakeup", {"class": "cid" if "cid" in detail else "pid"}))
        out.append(("race_wakeup", {"class": "cid" if "cid" in detail else "pid", "mp": True}))
    if name.startswith("sync/release-only-own") or name.startswith("sync/"):
        out.append(("race_same_pid_store", {}))
    if "C-check-then-act/entry-existence" in name:
        out.append(("race_delete_all_metadata", {}))
    if name.startswith("fault["):
        # fault[<mode>]/<scenario>/<clause>; detail: "... after <prim>@mkloc(<kind>, ...)"
        import re as _re
        mode = name[6:name.index("]")]
        scen = name[name.index("]/") + 2:name.rindex("/")]
        m = _re.search(r"(?:after )?([a-z+\-]+)@(?:mkloc|sdir)\((\d+)", detail)
        if m:
            kinds = {"0": "obj", "1": "pidref", "2": "cidref", "3": "meta", "4": "tmp-obj",
                     "5": "tmp-meta", "6": "tmp-refs"}
            prim = m.group(1)
            if prim == "read":
                prim = "open-r"      # natively a failing read is injected at the open
            # a marked location (<name>_delete) is its own category in the native fault plan
            mm = _re.search(r"[a-z+\-]+@mkloc\(.*,\s*(\d+)\)\s*$", detail, _re.S)
            marked = "-marked" if (mm and mm.group(1) != "0") else ""
            out.append(("fault_call", {"scenario": scen, "prim": prim,
                                       "target": kinds.get(m.group(2), "?") + marked,
                                       "persistent": mode == "persistent"}))
    if fn == "FileHashStore._clean_algorithm" and "acceptance-table" in name:
        want = None
        from_tab = detail if detail and " " not in detail else case[len("accepts:"):]
        out.append(("pure_call", {"function": "_clean_algorithm", "args": [from_tab],
                                  "expect": ["return", repr(_canon(from_tab))]}))
    short0 = fn.split(".")[-1]
    if prop in ("C06", "C19") or short0 in ("_verify_object_information", "_check_integer"):
        out.append(("verdict_matrix", {}))
    if prop == "C17":
        out.append(("reject_matrix", {}))
    if prop == "C20" and name.startswith("main/"):
        out.append(("client_matrix", {}))
    if prop == "C14" or name.startswith("memo/") or short0 in ("_verify_hashstore_properties", "_validate_properties",
                                   "_write_properties", "__init__"):
        out.append(("config_matrix", {}))
    # last resort for the reference / object / metadata layer: bounded search for a failing call
    # sequence next to an independent reference model of the property statements
    REFLAYER = ("_is_string_in_refs_file", "_update_refs_file", "_store_hashstore_refs_files",
                "tag_object", "delete_object", "_find_object", "_delete_object_only",
                "_write_refs_file", "_verify_hashstore_references", "store_object",
                "_move_and_get_checksums", "delete_if_invalid_object", "_rename_path_for_deletion",
                "_delete_marked_files")
    METALAYER = ("store_metadata", "delete_metadata", "retrieve_metadata", "_put_metadata",
                 "_mktmpmetadata")
    short = fn.split(".")[-1]
    if short in ("_remove_pid_and_handle_cid_refs_deletion", "_untag_object",
                 "_mark_pid_refs_file_for_deletion", "_validate_and_check_cid_lock"):
        # the roll-back helpers only run after a failure inside the tagging step
        for scen in ("tag_object: additional pid of the cid", "tag_object: first pid of the cid",
                     "tag_object: pid bound to another cid"):
            for prim, target in (("move", "pidref"), ("move", "cidref"), ("open-a", "cidref"),
                                 ("makedirs", "pidref")):
                out.append(("fault_call", {"scenario": scen, "prim": prim, "target": target,
                                           "persistent": False}))
    if short == "_update_refs_file":
        out.append(("refs_helper_pool", {}))
    if short in REFLAYER or name.startswith("lemma/"):
        out.append(("model_sweep", {"length": 3, "focus": ["tag", "delete", "store"]}))
    if short in ("_is_string_in_refs_file", "_update_refs_file", "_write_refs_file",
                 "_verify_hashstore_references", "_find_object"):
        # identifiers that differ only in letter case, sharing one object
        out.append(("model_sweep", {"length": 3, "focus": ["delete"], "contents": 1, "no_tag": True,
                                    "pids": ["doi:10.1/AB", "doi:10.1/ab"]}))
    if short in METALAYER or short in ("_find_object", "_computehash"):
        # (pid, format) pairs whose concatenations coincide: ('ab','c') and ('a','bc')
        out.append(("model_sweep", {"length": 3, "metadata": True, "no_objects": True,
                                    "focus": ["smeta"], "pids": ["ab", "a"], "fmts": ["c", "bc"],
                                    "check_retrieve": True}))
    if short in METALAYER:
        out.append(("model_sweep", {"length": 3, "metadata": True, "no_objects": True,
                                    "explicit_default": True, "focus": ["dmeta"],
                                    "pids": ["pid-a", "pid-b"]}))
    if short in METALAYER or short == "delete_object":
        out.append(("model_sweep", {"length": 3, "metadata": True, "focus": ["smeta", "dmeta"],
                                    "pids": ["pid-a", "pid-b"]}))
        out.append(("model_sweep", {"length": 4, "metadata": True, "contents": 1, "no_tag": True,
                                    "require_all": ["smeta", "delete"], "pids": ["pid-a", "pid-b"]}))
    return out


def short_name(fn):
    return (fn or "").split("[")[0].split(".")[-1]


def _canon(sp):
    sq = sp.lower().replace("-", "").replace("_", "")
    for n in ["md5", "sha1", "sha256", "sha384", "sha512", "sha224", "sha3_224", "sha3_256",
              "sha3_384", "sha3_512", "blake2b", "blake2s"]:
        if n.replace("_", "") == sq:
            return n
    return None


CHEAP = {"uppercase_cid", "store_with_cwd_decoy", "identifier_pool", "digest_history", "store_roundtrip", "pure_call", "refs_helper_pool",
         "digest_keys_independent", "observe_steps"}


def _model_cfg(model):
    names = {"md5": "MD5", "sha1": "SHA-1", "sha256": "SHA-256", "sha384": "SHA-384", "sha512": "SHA-512"}
    hexlen = {"md5": 32, "sha1": 40, "sha256": 64, "sha384": 96, "sha512": 128}
    a = model.get("self.algorithm")
    if a not in names:
        return None
    d, w = model.get("self.depth"), model.get("self.width")
    if not (isinstance(d, int) and isinstance(w, int) and 1 <= d <= 8 and 1 <= w <= 8
            and d * w < hexlen[a]):
        d, w = DEFAULT_CFG["depth"], DEFAULT_CFG["width"]
    return {"depth": d, "width": w, "algorithm": names[a], "namespace": DEFAULT_CFG["namespace"]}


def replay_refutation(prop, ob, bad, root):
    key = hashlib.sha256((prop + ob["name"] + str(ob.get("site"))).encode()).hexdigest()[:12]
    path = os.path.join(os.environ.get("VERIF_REPLAY_DIR") or os.path.join(root, "replays"),
                        f"{prop}-{key}.json")
    sc = {"property": prop, "obligation": ob["name"], "site": ob.get("site"),
          "detail": ob.get("detail"), "job": ob.get("job"),
          "solver": {"backend": "z3", "result": "sat", "model": ob.get("model"),
                     "path_decisions": ob.get("path"), "refuted_on_paths": len(bad)},
          "config": DEFAULT_CFG, "oracle": None, "params": None, "verdict": None,
          "observed": None, "tried": []}
    cands = [(o, q, DEFAULT_CFG) for o, q in concretize(prop, ob)]
    # the counter-model's store configuration (algorithm, depth, width) for the cheap oracles: a
    # defect that only shows under a non-default configuration needs it
    alt = _model_cfg(ob.get("model") or {})
    if alt and alt != DEFAULT_CFG:
        cands += [(o, q, alt) for o, q, _ in list(cands) if o in CHEAP]
    verdict = "no-failing-input-found"
    any_ok = False
    for oracle, params, cfg in cands:
        sc.update(oracle=oracle, params=params, config=cfg)
        with open(path, "w") as fh:
            json.dump(sc, fh, indent=1, default=str)
        res = run_driver(path, root)
        sc["tried"].append({"oracle": oracle, "params": params, "config": cfg, "result": res})
        if res.get("reproduced") is True:
            verdict = "reproduced"
            sc["observed"] = res.get("observed")
            break
        if res.get("reproduced") is False:
            any_ok = True
    approx = any((o.get("model") or {}).get("__approximated__") for o in bad) and \
        all((o.get("model") or {}).get("__approximated__") for o in bad)
    if verdict != "reproduced":
        # the scenarios derived from the model pass natively: the counter-model could not be
        # turned into a failing input.  This is reported, never silently dropped.
        sc["observed"] = "no derived scenario fails natively" if cands else \
            "no concretiser for this obligation: the verifier's output is attached"
        if approx and cands and any_ok:
            # the refuted path went through an over-approximated library operation and the real
            # code behaves correctly on every derived scenario: a spurious counterexample
            verdict = "spurious"
            sc["observed"] += "; the path used approximated operations: " + \
                ", ".join((bad[0].get("model") or {}).get("__approximated__", []))
    sc["verdict"] = verdict
    with open(path, "w") as fh:
        json.dump(sc, fh, indent=1, default=str)
    return verdict, path


def run_driver(path, root):
    try:
        p = subprocess.run([VENV_PY, os.path.join(root, "replay", "driver.py"), path],
                           capture_output=True, text=True, timeout=120)
        line = [l for l in p.stdout.strip().splitlines() if l.startswith("{")]
        return json.loads(line[-1]) if line else {"reproduced": None,
                                                  "observed": (p.stderr or p.stdout)[-500:]}
    except Exception as e:
        return {"reproduced": None, "observed": repr(e)}
