"""Independent implementation of the published HashStore layout (README), used by the replays to
abstract a store directory into the view (O, P, C, M, residue).  Deliberately shares no code
with /repo."""
import hashlib
import os

HASHLIB = {"MD5": "md5", "SHA-1": "sha1", "SHA-256": "sha256", "SHA-384": "sha384",
           "SHA-512": "sha512"}


def shard(depth, width, digest):
    toks = [digest[i * width:(i + 1) * width] for i in range(depth)] + [digest[depth * width:]]
    return [t for t in toks if t]


class Layout:
    def __init__(self, props):
        self.root = props["store_path"]
        self.depth = int(props["store_depth"])
        self.width = int(props["store_width"])
        self.alg = HASHLIB[props["store_algorithm"]]
        self.ns = props["store_metadata_namespace"]

    def H(self, s):
        return hashlib.new(self.alg, s.encode("utf-8")).hexdigest()

    def obj_path(self, cid):
        return os.path.join(self.root, "objects", *shard(self.depth, self.width, cid))

    def pid_ref(self, pid):
        return os.path.join(self.root, "refs", "pids", *shard(self.depth, self.width, self.H(pid)))

    def cid_ref(self, cid):
        return os.path.join(self.root, "refs", "cids", *shard(self.depth, self.width, cid))

    def meta_path(self, pid, fmt=None):
        fmt = self.ns if fmt is None else fmt
        return os.path.join(self.root, "metadata", *shard(self.depth, self.width, self.H(pid)),
                            self.H(pid + fmt))

    def _walk(self, sub):
        base = os.path.join(self.root, sub)
        for d, dirs, files in os.walk(base):
            for f in files:
                yield os.path.relpath(os.path.join(d, f), base)

    def view(self):
        """(O: cid->bytes, P: digest-of-pid->cid text, C: cid->[lines], M: (dir, doc)->bytes,
        residue: temporary / marker files)"""
        O, Pd, C, M, residue = {}, {}, {}, {}, []
        for rel in self._walk("objects"):
            parts = rel.split(os.sep)
            if parts[0] == "tmp" or rel.endswith("_delete"):
                residue.append("objects/" + rel)
                continue
            with open(os.path.join(self.root, "objects", rel), "rb") as fh:
                O["".join(parts)] = fh.read()
        for rel in self._walk("refs"):
            parts = rel.split(os.sep)
            full = os.path.join(self.root, "refs", rel)
            if parts[0] == "tmp" or rel.endswith("_delete"):
                residue.append("refs/" + rel)
            elif parts[0] == "pids":
                with open(full, "r", encoding="utf8") as fh:
                    Pd["".join(parts[1:])] = fh.read()
            elif parts[0] == "cids":
                with open(full, "r", encoding="utf8") as fh:
                    C["".join(parts[1:])] = [l.rstrip("\n") for l in fh.readlines()]
        for rel in self._walk("metadata"):
            parts = rel.split(os.sep)
            if parts[0] == "tmp" or rel.endswith("_delete"):
                residue.append("metadata/" + rel)
                continue
            with open(os.path.join(self.root, "metadata", rel), "rb") as fh:
                M[("".join(parts[:-1]), parts[-1])] = fh.read()
        P = _PidView(self, Pd)
        return {"O": O, "P": P, "Pd": Pd, "C": C, "M": M, "residue": residue}


class _PidView:
    """pid -> cid through the digest of the pid (pids themselves are not stored)."""

    def __init__(self, lay, pd):
        self.lay, self.pd = lay, pd

    def __contains__(self, pid):
        return self.lay.H(pid) in self.pd

    def __getitem__(self, pid):
        return self.pd[self.lay.H(pid)]
