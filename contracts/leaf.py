"""Contracts of the path builders, small file helpers and reference-file primitives
(C15, C18, C03-C05, C09)."""
import z3
from vc import sorts as T
from vc.values import *  # noqa
from vc.lib import TRUE, FALSE, fsize, TMP_KIND
from vc.engine import PyRaise, mkexc
from .common import *  # noqa
from . import checkers
from .checkers import clean_of

pathstr = z3.Function("pathstr", T.Loc, T.S)   # the text of a path, when a path is used as text


# ---- helpers over the abstract state -----------------------------------------------------------
def H(self, s):
    """H(x) = hexdigest of the UTF-8 bytes of x under the store algorithm."""
    return T.Hd(self.f["algorithm"].term, T.utf8(s))


def fsget(it, loc):
    return it.lib.fs_get(it, loc)


def fsput(it, loc, st):
    it.lib.fs_set(it, loc, st)


def loc_of(it, p):
    return it.lib.path_loc(it, p)


def obj_loc(c):
    return T.loc(T.K_OBJ, c)


def pidref_loc(self, pid):
    return T.loc(T.K_PIDREF, H(self, pid))


def cidref_loc(c):
    return T.loc(T.K_CIDREF, c)


def meta_loc(self, pid, fmt):
    return T.loc(T.K_META, H(self, pid), H(self, z3.Concat(pid, fmt)))


def str_of(it, v, what="argument"):
    isstr, s = dyn_str(v)
    if not it.ctx.implied(isstr):
        raise Undecided(f"contract used with a non-string {what}: {v}")
    return s


# ---- sharding and addresses -----------------------------------------------------------------------
@contract("FileHashStore._shard", props={"*": ("C15", "C18")},
          doc="result is the token list of the key: `depth` tokens of `width` characters then the "
              "remainder, empty tokens dropped; concat(result) == key (hence injective).  The "
              "body is proved against the README layout in props/shard.py.")
def _shard(it, self, checksum):
    if isinstance(checksum, VPath) and not checksum.pathobj:
        r = VShard(pathstr(loc_of(it, checksum)))
        r.absolute = True
        return r
    return VShard(str_of(it, checksum, "checksum"))


@contract("FileHashStore._build_hashstore_data_object_path",
          cases={"digest": lambda it: [make_self(it), sym_str("hash_id")]},
          props={"*": ("C15", "C18")})
def _build_hashstore_data_object_path(it, self, hash_id):
    if isinstance(hash_id, VPath) and not hash_id.pathobj:
        return VPath(A_EXT, (("garbage", pathstr(loc_of(it, hash_id))),), False)
    return VPath(A_OBJECTS, (("shard", str_of(it, hash_id)),), pathobj=False)


@contract("FileHashStore._get_hashstore_pid_refs_path",
          cases={"pid": lambda it: [make_self(it), sym_str("pid")]},
          props={"*": ("C15", "C18")})
def _get_hashstore_pid_refs_path(it, self, pid):
    return VPath(A_PIDS, (("shard", H(self, str_of(it, pid))),), pathobj=True)


@contract("FileHashStore._get_hashstore_cid_refs_path",
          cases={"cid": lambda it: [make_self(it), sym_str("cid")]},
          props={"*": ("C15", "C18")})
def _get_hashstore_cid_refs_path(it, self, cid):
    return VPath(A_CIDS, (("shard", str_of(it, cid)),), pathobj=True)


# ---- hashing ----------------------------------------------------------------------------------------
def _hash_cases():
    def mk(kind, alg):
        def f(it):
            s = make_self(it)
            a = NONE if alg == "None" else sym_str("algorithm")
            if kind == "str":
                return [s, sym_str("stream"), a]
            if kind == "file":
                loc = T.mkloc(z3.Int("hk"), z3.String("hk1"), z3.String("hk2"), z3.Int("hm"))
                it.ctx.assume(T.present(z3.Select(it.ctx.st.fs, loc)))
                h = VObj("file", loc=loc, mode="r", binary=True, pos=z3.IntVal(0), closed=False,
                         namev=NONE, kind="real")
                return [s, h, a]
        return f
    return {f"{k},algorithm={a}": mk(k, a) for k in ("str", "file") for a in ("None", "str")}


@contract("FileHashStore._computehash", cases=_hash_cases(),
          props={"*": ("C02", "C15", "C11", "C18")})
def _computehash(it, self, stream, algorithm=NONE):
    if isinstance(algorithm, VNone):
        alg = self.f["algorithm"].term
    else:
        alg = clean_of(it, algorithm).term
    if isinstance(stream, (VStr, VDyn)):
        return VStr(T.Hd(alg, T.utf8(str_of(it, stream))))
    if isinstance(stream, VPath) and not stream.pathobj:
        return VStr(T.Hd(alg, T.utf8(pathstr(loc_of(it, stream)))))
    if isinstance(stream, VObj) and stream.cls == "file" and stream.f["binary"]:
        content = it.lib.handle_content(it, stream)
        pos = stream.f["pos"]
        n = z3.Length(content)
        stream.f["pos"] = n
        return VStr(T.Hd(alg, z3.SubString(content, pos, n - pos)))
    raise Undecided(f"_computehash contract on {stream}")


# ---- directories --------------------------------------------------------------------------------------
@contract("FileHashStore._create_path",
          cases={"dir": lambda it: [make_self(it), VPath(A_PIDS, (("sharddir", z3.String("k")),))]},
          compare=("outcome", "fs", "dirs", "locks"), props={"*": ("C14",)})
def _create_path(it, self, path):
    lib = it.lib
    did = lib.path_dir(it, path)
    st = it.ctx.st
    st.dirs = z3.Store(st.dirs, did, TRUE)      # idempotent: no case split on prior existence
    a = path.anchor
    from vc.lib import ANCHOR_DIR
    while True:
        st.dirs = z3.Store(st.dirs, ANCHOR_DIR[a], TRUE)
        if a not in PARENT:
            break
        a = PARENT[a]
    return NONE


# ---- small files -----------------------------------------------------------------------------------------
def _any_store_loc(it, name="p"):
    loc = T.mkloc(z3.Int(name + "k"), z3.String(name + "1"), z3.String(name + "2"),
                  z3.Int(name + "m"))
    it.ctx.assume(z3.And(T.l_kind(loc) >= 0, T.l_kind(loc) <= T.K_EXT, T.l_marks(loc) >= 0))
    return loc


class VLocPath(VPath):
    """A path value standing for an arbitrary abstract location (used to verify helpers whose
    argument may be any file of the store)."""

    def __init__(self, loc, pathobj=True):
        super().__init__(A_EXT, (("loc", loc),), pathobj, 0)
        self.loc = loc

    def with_(self, **kw):
        if kw.get("marks"):
            p = VLocPath(T.mkloc(T.l_kind(self.loc), T.l_k1(self.loc), T.l_k2(self.loc),
                                 T.l_marks(self.loc) + (kw["marks"] - self.marks)),
                         kw.get("pathobj", self.pathobj))
            return p
        return VLocPath(self.loc, kw.get("pathobj", self.pathobj))


@contract("FileHashStore._read_small_file_content",
          cases={"any file": lambda it: [VLocPath(_any_store_loc(it))]},
          props={"*": ("C03", "C05")})
def _read_small_file_content(it, path_to_file):
    st = fsget(it, loc_of(it, path_to_file))
    if it.ctx.branch(T.is_Absent(st)):
        raise_("FileNotFoundError")
    return VStr(T.as_text(st))


@contract("FileHashStore._rename_path_for_deletion",
          cases={"Path": lambda it: [VLocPath(_any_store_loc(it))],
                 "str": lambda it: [VLocPath(_any_store_loc(it), pathobj=False)]},
          props={"*": ("C05", "C09", "C04")})
def _rename_path_for_deletion(it, path):
    l = loc_of(it, path)
    st = fsget(it, l)
    if it.ctx.branch(T.is_Absent(st)):
        raise_("FileNotFoundError")
    dst = T.mark(l)
    if it.ctx.branch(z3.Not(z3.Select(it.ctx.st.dirs, it.lib.parent_dir_of_loc(dst)))):
        raise_("FileNotFoundError")
    fsput(it, dst, st)
    fsput(it, l, T.Absent)
    return path.with_(marks=path.marks + 1, pathobj=False)


@contract("FileHashStore._delete_marked_files",
          cases={"None": lambda it: [NONE],
                 "[]": lambda it: [VList([])],
                 "[a,b]": lambda it: [VList([VLocPath(_any_store_loc(it, "a"), False),
                                             VLocPath(_any_store_loc(it, "b"), False)])]},
          props={"*": ("C05", "C04")})
def _delete_marked_files(it, delete_list):
    if isinstance(delete_list, VNone):
        raise_("ValueError")
    for p in it.lib.iter_concrete(it, delete_list):
        if isinstance(p, VSymSeq) and p.what == "markedmeta":
            # the marked entries of one metadata directory, collected by a directory loop
            d, fs_entry = p.info["d"], p.info["fs"]
            fs = it.ctx.st.fs
            x = z3.Const("x!mm", T.Loc)
            src = T.mkloc(z3.IntVal(T.K_META), d, T.l_k2(x), z3.IntVal(0))
            it.ctx.st.fs = z3.Lambda([x], z3.If(
                z3.And(T.l_kind(x) == T.K_META, T.l_k1(x) == d, T.l_marks(x) == 1,
                       T.present(z3.Select(fs_entry, src))), T.Absent, z3.Select(fs, x)))
            continue
        l = loc_of(it, p)
        if it.ctx.branch(T.present(fsget(it, l))):
            fsput(it, l, T.Absent)
    return NONE


def _cidrefs_path(it):
    k = z3.String("cidk")
    it.ctx.assume(T.ishex(k))
    return VPath(A_CIDS, (("shard", k),))


def _lines_file_case(it, name="refs"):
    loc = _any_store_loc(it, name)
    return loc


@contract("FileHashStore._is_string_in_refs_file",
          cases={"cid refs": lambda it: [sym_str("ref_id"), _cidrefs_path(it)],
                 "any": lambda it: [sym_str("ref_id"), VLocPath(_any_store_loc(it))]},
          props={"*": ("C03", "C05", "C18")})
def _is_string_in_refs_file(it, ref_id, refs_file_path):
    st = fsget(it, loc_of(it, refs_file_path))
    if it.ctx.branch(T.is_Absent(st)):
        raise_("FileNotFoundError")
    r = str_of(it, ref_id)
    return VBool(z3.Select(T.as_lines(st), r) > 0)


def _tmpdir_case(it):
    return VPath(A_REFS_TMP)


@contract("FileHashStore._mktmpfile",
          cases={"refs/tmp": lambda it: [make_self(it), VPath(A_REFS_TMP)],
                 "objects/tmp": lambda it: [make_self(it), VPath(A_OBJ_TMP)],
                 "metadata/tmp": lambda it: [make_self(it), VPath(A_META_TMP)]},
          compare=("outcome", "result", "fs", "locks", "self"),
          props={"*": ("C05", "C09")})
def _mktmpfile(it, self, path):
    lib = it.lib
    if path.anchor not in TMP_KIND or path.parts:
        raise Undecided("_mktmpfile outside a tmp directory")
    from vc.lib import ANCHOR_DIR
    st = it.ctx.st
    st.dirs = z3.Store(st.dirs, ANCHOR_DIR[path.anchor], TRUE)
    area = TMP_KIND[path.anchor]
    name = T.fresh_tmp(st.fs, z3.IntVal(area))
    loc = T.loc(area, name)
    fsput(it, loc, T.Data(T.EMPTY))
    h = VObj("file", loc=loc, mode="w", binary=True, pos=z3.IntVal(0), closed=False,
             namev=VPath(path.anchor, (("str", name),), pathobj=False), kind="tmp")
    it.ctx.__dict__.setdefault("handles", []).append(h)
    return h


@contract("FileHashStore._write_refs_file",
          cases={"pid": lambda it: [make_self(it), VPath(A_REFS_TMP), sym_str("ref_id"), VStr("pid")],
                 "cid": lambda it: [make_self(it), VPath(A_REFS_TMP), sym_str("ref_id"), VStr("cid")]},
          pre=lambda it, self, path, ref_id, ref_type: [
              ("ref-type-known", z3.Or(str_of(it, ref_type) == z3.StringVal("pid"),
                                       str_of(it, ref_type) == z3.StringVal("cid"))),
              ("line-wsfree", z3.Implies(str_of(it, ref_type) == z3.StringVal("cid"),
                                         T.wsfree(str_of(it, ref_id))))],
          compare=("outcome", "result", "fs", "locks", "self"),
          props={"*": ("C05", "C09", "C15", "C03")})
def _write_refs_file(it, self, path, ref_id, ref_type):
    if path.anchor != A_REFS_TMP or path.parts:
        raise Undecided("_write_refs_file outside refs/tmp")
    st = it.ctx.st
    from vc.lib import ANCHOR_DIR
    st.dirs = z3.Store(st.dirs, ANCHOR_DIR[A_REFS_TMP], TRUE)
    name = T.fresh_tmp(st.fs, z3.IntVal(T.K_TMP_REFS))
    loc = T.loc(T.K_TMP_REFS, name)
    r = str_of(it, ref_id)
    if it.ctx.branch(str_of(it, ref_type) == z3.StringVal("cid")):
        fsput(it, loc, T.LinesF(z3.Store(T.NOLINES, r, z3.IntVal(1))))
    else:
        fsput(it, loc, T.Data(r))
    return VPath(A_REFS_TMP, (("str", name),), pathobj=False)


@contract("FileHashStore._update_refs_file",
          cases={"add": lambda it: [make_self(it), _cidrefs_path(it), sym_str("ref_id"), VStr("add")],
                 "remove": lambda it: [make_self(it), _cidrefs_path(it), sym_str("ref_id"),
                                       VStr("remove")]},
          pre=lambda it, self, refs_file_path, ref_id, update_type: [
              ("ref-id-wsfree", T.wsfree(str_of(it, ref_id)))],
          props={"*": ("C03", "C04", "C05", "C18")})
def _update_refs_file(it, self, refs_file_path, ref_id, update_type):
    l = loc_of(it, refs_file_path)
    st = fsget(it, l)
    if it.ctx.branch(T.is_Absent(st)):
        raise_("FileNotFoundError")
    r = str_of(it, ref_id)
    m = T.as_lines(st)
    ut = str_of(it, update_type)
    if it.ctx.branch(ut == z3.StringVal("add")):
        if it.ctx.branch(z3.Select(m, r) > 0):
            return NONE
        fsput(it, l, T.LinesF(z3.Store(m, r, z3.Select(m, r) + 1)))
        return NONE
    if it.ctx.branch(ut == z3.StringVal("remove")):
        fsput(it, l, T.LinesF(z3.Store(m, r, z3.IntVal(0))))   # whole-line comparison
        return NONE
    return NONE
