"""Contracts of the constructor and the configuration functions (C14, C15, C16)."""
import z3
from vc import sorts as T
from vc.values import *  # noqa
from vc.lib import TRUE, FALSE, ANCHOR_DIR
from vc.lib2 import (yaml_depth, yaml_width, yaml_algo, yaml_ns, yaml_ok, yaml_dump, py_int,
                     isintlit, DATAONE)
from vc.engine import PyRaise, mkexc, LOCK_CLASSES
from .common import *  # noqa
from .leaf import fsget, fsput

KEYS = ["store_path", "store_depth", "store_width", "store_algorithm",
        "store_metadata_namespace"]
YAML_LOC = T.loc(T.K_YAML)
TRANSLATE = dict(zip(DATAONE, T.DEFAULT5))
COMMENTS = None   # the comment block is whatever the real _build_hashstore_yaml_string emits


def props_dict(it, missing=None, extra=False, other=True):
    sp = z3.String("store_path")
    it.ctx.store_path_term = sp
    tags = (T_NONE, T_INT, T_STR, T_OTHER) if other else (T_NONE, T_INT, T_STR)
    vals = {
        "store_path": VStr(sp),
        "store_depth": dyn(it, "store_depth", tags),
        "store_width": dyn(it, "store_width", tags),
        "store_algorithm": dyn(it, "store_algorithm", (T_NONE, T_STR)),
        "store_metadata_namespace": dyn(it, "store_metadata_namespace", (T_NONE, T_STR)),
    }
    ents = [[TRUE, VStr(k), v] for k, v in vals.items() if k != missing]
    if extra:
        ents.append([TRUE, VStr("unrelated_key"), VStr("x")])
    return VDict(ents)


def yaml_typing(it):
    """An existing hashstore.yaml was written by a HashStore: it parses and names one of the
    five DataONE algorithms (typing part of the store invariant)."""
    st = z3.Select(it.ctx.st.fs, YAML_LOC)
    s = T.as_text(st)
    it.ctx.assume(z3.Implies(T.present(st), z3.And(
        T.is_Data(st), yaml_ok(s), z3.Or(*[yaml_algo(s) == z3.StringVal(a) for a in DATAONE]))))


def dget(d, key):
    for g, k, v in d.entries:
        if k.concrete() == key:
            return v
    return None


def to_int(it, v):
    """int(value) as the constructor applies it (raises ValueError inside _validate_properties,
    TypeError/ValueError from the bare int() of _verify_hashstore_properties)."""
    return it.lib.c_int(it, v)


def validate(it, properties):
    if not isinstance(properties, VDict):
        raise_("ValueError")
    out = VDict([])
    for key in KEYS:
        v = dget(properties, key)
        if v is None:
            raise_("KeyError")
        if it.ctx.branch(dyn_is_none(v)):
            raise_("ValueError")
        if key in ("store_depth", "store_width"):
            try:
                v = to_int(it, v)
            except PyRaise:
                raise_("ValueError")
        out.entries.append([TRUE, VStr(key), v])
    return out


@contract("FileHashStore._validate_properties",
          cases={"five keys": lambda it: [make_self(it), props_dict(it)],
                 "extra key": lambda it: [make_self(it), props_dict(it, extra=True)],
                 "not a dict": lambda it: [make_self(it), dyn(it, "properties", (T_NONE, T_STR, T_OTHER))],
                 **{f"missing {k}": (lambda k: lambda it: [make_self(it), props_dict(it, missing=k)])(k)
                    for k in KEYS}},
          props={"*": ("C14",)})
def _validate_properties(it, self, properties):
    return validate(it, properties)


def yaml_string(depth, width, alg, ns, comments):
    return z3.Concat(comments, yaml_dump(depth, width, ns, alg))


# ---------------------------------------------------------------------------------------------------
def _self_for_init(it):
    """The instance under construction: only what __init__ has set before the call."""
    s = VObj("FileHashStore")
    s.f["fhs_logger"] = VObj("logger")
    s.f["hashstore_configuration_yaml"] = VPath(A_ROOT, (("lit", "hashstore.yaml"),))
    from vc.interp import Env
    for name, expr in it.eng.class_attrs.get("FileHashStore", {}).items():
        s.f[name] = it.eval(expr, Env())
    return s


@contract("FileHashStore._load_properties",
          cases={"yaml": lambda it: (yaml_typing(it), [VPath(A_ROOT, (("lit", "hashstore.yaml"),)),
                                                       VList([VStr(k) for k in KEYS])])[1]},
          props={"*": ("C14",)})
def _load_properties(it, hashstore_yaml_path, hashstore_required_prop_keys):
    st = fsget(it, it.lib.path_loc(it, hashstore_yaml_path))
    if it.ctx.branch(T.is_Absent(st)):
        raise_("FileNotFoundError")
    s = T.as_text(st)
    if it.ctx.branch(z3.Not(yaml_ok(s))):
        raise_("yaml.YAMLError")
    return VDict([[TRUE, VStr("store_depth"), VInt(yaml_depth(s))],
                  [TRUE, VStr("store_width"), VInt(yaml_width(s))],
                  [TRUE, VStr("store_algorithm"), VStr(yaml_algo(s))],
                  [TRUE, VStr("store_metadata_namespace"), VStr(yaml_ns(s))]])


def verify_props(it, self, properties):
    """Refuse a configuration that differs from the recorded one; refuse store data without a
    configuration file (C14)."""
    st = fsget(it, YAML_LOC)
    if it.ctx.branch(T.present(st)):
        s = T.as_text(st)
        if it.ctx.branch(z3.Not(yaml_ok(s))):
            raise_("yaml.YAMLError")
        recorded = {"store_depth": VInt(yaml_depth(s)), "store_width": VInt(yaml_width(s)),
                    "store_algorithm": VStr(yaml_algo(s)),
                    "store_metadata_namespace": VStr(yaml_ns(s))}
        for key in KEYS[1:]:
            v = dget(properties, key)
            if key in ("store_depth", "store_width"):
                v = to_int(it, v)
            if it.ctx.branch(z3.Not(it.lib.eq(it, recorded[key], v))):
                raise_("ValueError")
        return
    dirs = it.ctx.st.dirs
    if it.ctx.branch(z3.And(z3.Select(dirs, ANCHOR_DIR[A_ROOT]),
                            z3.Or(*[z3.Select(dirs, ANCHOR_DIR[a])
                                    for a in (A_OBJECTS, A_METADATA, A_REFS)]))):
        raise_("RuntimeError")


@contract("FileHashStore._verify_hashstore_properties",
          cases={"any": lambda it: (lambda s: (yaml_typing(it), [s, props_dict(it),
                                                                 VStr(z3.String("store_path"))])[1])(
              _self_for_init(it))},
          compare=("outcome", "fs", "dirs", "locks"), props={"*": ("C14",)})
def _verify_hashstore_properties(it, self, properties, prop_store_path):
    verify_props(it, self, properties)
    return NONE


def write_props(it, self, properties, comments=None):
    if it.ctx.branch(T.present(fsget(it, YAML_LOC))):
        raise_("FileExistsError")
    cp = validate(it, properties)
    alg = dget(cp, "store_algorithm")
    a_str, a = dyn_str(alg)
    if it.ctx.branch(z3.Not(z3.And(a_str, z3.Or(*[a == z3.StringVal(x) for x in DATAONE])))):
        raise_("ValueError")
    st = it.ctx.st
    st.dirs = z3.Store(st.dirs, ANCHOR_DIR[A_ROOT], TRUE)
    ns = dyn_str(dget(cp, "store_metadata_namespace"))[1]
    d, w = dget(cp, "store_depth").term, dget(cp, "store_width").term
    cm = comments if comments is not None else z3.String("yaml_comment_block")
    fsput(it, YAML_LOC, T.Data(yaml_string(d, w, a, ns, cm)))


def _fs_eq_mod_comments(it):
    pass


@contract("FileHashStore._write_properties",
          cases={"any": lambda it: (lambda s: (yaml_typing(it), s.f.__setitem__("root", VPath(A_ROOT)),
                                               [s, props_dict(it)])[2])(_self_for_init(it))},
          compare=("outcome", "dirs", "locks"),
          post_hook=lambda it, case, out_b: _yaml_written_ok(it, out_b), props={"*": ("C14", "C15")})
def _write_properties(it, self, properties):
    write_props(it, self, properties)
    return NONE


def _yaml_written_ok(it, out_b):
    """What was written parses back to the supplied configuration, and nothing else changed."""
    ctx = it.ctx
    if out_b[0] != "return":
        x = ctx.skolem_loc()
        ctx.oblige("FileHashStore._write_properties/post/refused-writes-nothing",
                   z3.Select(ctx.st.fs, x) == z3.Select(ctx.fs0, x), props=("C14",))
        return
    st = z3.Select(ctx.st.fs, YAML_LOC)
    s = T.as_text(st)
    ctx.oblige("FileHashStore._write_properties/post/yaml-round-trip",
               z3.And(T.is_Data(st), yaml_ok(s),
                      z3.Or(*[yaml_algo(s) == z3.StringVal(a) for a in DATAONE])),
               props=("C14", "C15"))
    x = ctx.skolem_loc()
    ctx.oblige("FileHashStore._write_properties/post/only-the-configuration-file-written",
               z3.Or(x == YAML_LOC, z3.Select(ctx.st.fs, x) == z3.Select(ctx.fs0, x)),
               props=("C14",))


@contract("FileHashStore._set_default_algorithms",
          cases={"any": lambda it: (lambda s: (yaml_typing(it), [s])[1])(_self_for_init(it))},
          props={"*": ("C14", "C02")})
def _set_default_algorithms(it, self):
    st = fsget(it, YAML_LOC)
    if it.ctx.branch(T.is_Absent(st)):
        raise_("FileNotFoundError")
    s = T.as_text(st)
    if it.ctx.branch(z3.Not(yaml_ok(s))):
        raise_("yaml.YAMLError")
    ya = yaml_algo(s)
    alg = z3.StringVal("?")
    for d, h in TRANSLATE.items():
        alg = z3.If(ya == z3.StringVal(d), z3.StringVal(h), alg)
    if it.ctx.branch(z3.Not(z3.Or(*[ya == z3.StringVal(d) for d in DATAONE]))):
        raise_("KeyError")
    self.f["algorithm"] = VStr(alg)
    self.f["default_algo_list"] = VList([VStr(a) for a in T.DEFAULT5])
    return NONE


# ---------------------------------------------------------------------------------------------------
def _init_cases():
    def mk(pd):
        def f(it):
            yaml_typing(it)
            s = VObj("FileHashStore")
            return [s, pd(it)]
        return f
    cases = {"five keys": mk(lambda it: props_dict(it, other=False)),
             "extra key": mk(lambda it: props_dict(it, extra=True, other=False)),
             "None": mk(lambda it: NONE),
             "empty dict": mk(lambda it: VDict([])),
             "not a dict": mk(lambda it: dyn(it, "properties", (T_STR, T_OTHER)))}
    for k in KEYS:
        cases[f"missing {k}"] = mk((lambda k: lambda it: props_dict(it, missing=k))(k))
    return cases


def _init_post(it, case, out_b):
    """C14: a refused constructor call has created or modified nothing (files or directories);
    an accepted one writes at most the configuration file, and only when there was none."""
    ctx = it.ctx
    x = ctx.skolem_loc()
    if out_b[0] == "raise":
        ctx.oblige("FileHashStore.__init__/post/refused-creates-nothing",
                   z3.And(z3.Select(ctx.st.fs, x) == z3.Select(ctx.fs0, x),
                          ctx.st.dirs == ctx.dirs0), detail=out_b[1].cls, props=("C14",))
        return
    ctx.oblige("FileHashStore.__init__/post/only-the-configuration-file-written",
               z3.Or(x == YAML_LOC, z3.Select(ctx.st.fs, x) == z3.Select(ctx.fs0, x)),
               props=("C14",))
    old, new = z3.Select(ctx.fs0, YAML_LOC), z3.Select(ctx.st.fs, YAML_LOC)
    ctx.oblige("FileHashStore.__init__/post/existing-configuration-never-rewritten",
               z3.Implies(T.present(old), new == old), props=("C14",))


@contract("FileHashStore.__init__", cases=_init_cases(),
          compare=("outcome", "locks", "self"), post_hook=_init_post,
          props={"*": ("C14", "C15", "C16")})
def init(it, self, properties=NONE):
    lib = it.lib
    if isinstance(properties, VNone) or (isinstance(properties, VDict) and not properties.entries):
        raise_("ValueError")
    if isinstance(properties, VDyn):
        if it.ctx.branch(z3.Not(lib.truth(it, properties))):
            raise_("ValueError")
    self.f["fhs_logger"] = VObj("logger")
    cp = validate(it, properties)
    self.f["hashstore_configuration_yaml"] = VPath(A_ROOT, (("lit", "hashstore.yaml"),))
    verify_props(it, self, properties)
    self.f["root"] = VPath(A_ROOT)
    self.f["depth"] = dget(cp, "store_depth")
    self.f["width"] = dget(cp, "store_width")
    self.f["sysmeta_ns"] = dget(cp, "store_metadata_namespace")
    if it.ctx.branch(T.is_Absent(fsget(it, YAML_LOC))):
        write_props(it, self, properties)
    _set_default_algorithms(it, self)
    for n, a in (("objects", A_OBJECTS), ("metadata", A_METADATA), ("refs", A_REFS),
                 ("cids", A_CIDS), ("pids", A_PIDS)):
        self.f[n] = VPath(a)
    st = it.ctx.st
    for a in STORE_DIRS:
        st.dirs = z3.Store(st.dirs, ANCHOR_DIR[a], TRUE)
    env = lib.c_os_getenv(it, VStr("USE_MULTIPROCESSING"), VStr("False"))
    use_mp = lib.eq(it, env, VStr("True"))
    self.f["use_multiprocessing"] = VBool(use_mp)
    flavor = "mp" if it.ctx.branch(use_mp) else "th"
    for cls, (lk, cond, lst) in LOCK_ATTRS.items():
        lock = VObj("lock", flavor=flavor)
        self.f[f"{lk}_{flavor}"] = lock
        self.f[f"{cond}_{flavor}"] = VObj("rawcondition", flavor=flavor, lock=lock)
        self.f[f"{lst}_{flavor}"] = VList([]) if flavor == "th" else VObj("rawlist", flavor="mp")
    return NONE
