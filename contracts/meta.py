"""Contracts of the metadata layer (C11, C12, C09)."""
import z3
from vc import sorts as T
from vc.values import *  # noqa
from vc.lib import TRUE, FALSE, ANCHOR_DIR
from vc.engine import PyRaise, mkexc, LOCK_CLASSES
from .common import *  # noqa
from .leaf import (H, fsget, fsput, loc_of, obj_loc, pidref_loc, cidref_loc, meta_loc, str_of)
from . import checkers, refs, objects
from .checkers import data_cases, DATA_OK
from .objects import (stream_init, stream_close, consume, generic_stream, _stream_obj,
                      clear_meta_dir)
from .refs import acquire, release, LOCK_ORDER


def fmt_of(it, self, format_id):
    return checkers._check_arg_format_id(it, self, format_id, VStr("m"))


# ---------------------------------------------------------------------------------------------------
@contract("FileHashStore._mktmpmetadata",
          cases={"any stream": lambda it: [make_self(it), generic_stream(it)]},
          props={"*": ("C11", "C09")})
def _mktmpmetadata(it, self, stream):
    st = it.ctx.st
    st.dirs = z3.Store(st.dirs, ANCHOR_DIR[A_META_TMP], TRUE)
    name = T.fresh_tmp(st.fs, z3.IntVal(T.K_TMP_META))
    content = consume(it, stream)
    fsput(it, T.loc(T.K_TMP_META, name), T.Data(content))
    return VPath(A_META_TMP, (("str", name),), pathobj=False)


def put_metadata(it, self, metadata, p, doc):
    stream = VObj("Stream")
    stream_init(it, stream, metadata)
    try:
        content = consume(it, stream)
    finally:
        stream_close(it, stream)
    d = H(self, p)
    ml = T.loc(T.K_META, d, doc)
    fsput(it, ml, T.Data(content))
    st = it.ctx.st
    st.dirs = z3.Store(st.dirs, it.lib.parent_dir_of_loc(ml), TRUE)
    return VPath(A_METADATA, (("shard", d), ("str", doc)), pathobj=True)


def _put_cases():
    out = {}
    for k, f in data_cases().items():
        if k in DATA_OK:
            def mk(it, f=f):
                s = make_self(it)
                pid, fmt = sym_str("pid"), z3.String("fmt")
                return [s, f(it), pid, VStr(H(s, z3.Concat(pid.term, fmt)))]
            out[k] = mk
    return out


@contract("FileHashStore._put_metadata", cases=_put_cases(),
          pre=lambda it, self, metadata, pid, metadata_doc_name: [
              ("doc-name-is-digest", T.ishex(str_of(it, metadata_doc_name)))],
          props={"*": ("C11", "C09", "C15")})
def _put_metadata(it, self, metadata, pid, metadata_doc_name):
    return put_metadata(it, self, metadata, str_of(it, pid), str_of(it, metadata_doc_name))


def _meta_pre(it, self, **kw):
    st = it.ctx.st
    ok = all(LOCK_ORDER[c] < LOCK_ORDER["doc"] for c, _ in st.held)
    return [("lock-order", z3.BoolVal(ok)), ("own-doc-empty", st.own["doc"] == T.NOLOCKS)]


def _delete_meta_pre(it, self, pid, format_id=NONE):
    isstr, p = dyn_str(pid)
    d = H(self, p)
    fs = it.ctx.st.fs
    return _meta_pre(it, self) + [
        # I3 for this pid: no deletion-marker leftovers among its metadata documents
        ("no-marker-leftovers", lambda x: z3.Implies(
            z3.And(isstr, T.l_kind(x) == T.K_META, T.l_k1(x) == d, T.l_marks(x) >= 1),
            T.is_Absent(z3.Select(fs, x))))]


def _sm_cases():
    out = {}
    for k, f in data_cases().items():
        out[k] = (lambda f: lambda it: [make_self(it), opt_str(it, "pid"), f(it),
                                        opt_str(it, "format_id")])(f)
    return out


@contract("FileHashStore.store_metadata", cases=_sm_cases(), pre=_meta_pre,
          props={"*": ("C11", "C12", "C17", "C08", "C15")})
def store_metadata(it, self, pid, metadata, format_id=NONE):
    checkers._check_string(it, pid, VStr("pid"))
    checkers._check_arg_data(it, metadata)
    f = fmt_of(it, self, format_id)
    p = str_of(it, pid)
    doc = H(self, z3.Concat(p, str_of(it, f)))
    acquire(it, "doc", doc)
    try:
        r = put_metadata(it, self, metadata, p, doc)
    finally:
        release(it, "doc", doc)
    return r.with_(pathobj=False)


@contract("FileHashStore.retrieve_metadata",
          cases={"any": lambda it: [make_self(it), opt_str(it, "pid"), opt_str(it, "format_id")]},
          props={"*": ("C11", "C17")})
def retrieve_metadata(it, self, pid, format_id=NONE):
    checkers._check_string(it, pid, VStr("pid"))
    f = fmt_of(it, self, format_id)
    p = str_of(it, pid)
    ml = meta_loc(self, p, str_of(it, f))
    if it.ctx.branch(T.is_Absent(fsget(it, ml))):
        raise_("ValueError")
    h = VObj("file", loc=ml, mode="r", binary=True, pos=z3.IntVal(0), closed=False,
             namev=VPath(A_METADATA, (("shard", T.l_k1(ml)), ("str", T.l_k2(ml)))), kind="real")
    it.ctx.__dict__.setdefault("handles", []).append(h)
    return h


def no_residue(it, self, p):
    """Stated precondition of delete-all (part of I3): pid's metadata directory holds no
    deletion-marker leftovers."""
    d = H(self, p)
    for fs, dd in it.ctx.ax.__dict__.get("residue_free", []):
        pass
    n = it.ctx.fresh("anyname", T.S)
    k = it.ctx.fresh("anymarks", T.I)
    return z3.Implies(k >= 1, T.is_Absent(z3.Select(it.ctx.st.fs,
                                                    T.mkloc(z3.IntVal(T.K_META), d, n, k))))


@contract("FileHashStore.delete_metadata",
          cases={"any": lambda it: [make_self(it), opt_str(it, "pid"), opt_str(it, "format_id")]},
          pre=_delete_meta_pre, props={"*": ("C11", "C12", "C17", "C08", "C05")})
def delete_metadata(it, self, pid, format_id=NONE):
    checkers._check_string(it, pid, VStr("pid"))
    f = fmt_of(it, self, format_id)
    p = str_of(it, pid)
    if it.ctx.branch(dyn_is_none(format_id)):
        clear_meta_dir(it, self, p)
        return NONE
    ml = meta_loc(self, p, str_of(it, f))
    fsput(it, ml, T.Absent)
    return NONE
