"""Contracts of the untagging (roll-back) helpers and of the small lookup / delete helpers
(C13, C05, C04, C17)."""
import z3
from vc import sorts as T
from vc.values import *  # noqa
from vc.lib import TRUE, FALSE
from vc.engine import PyRaise, mkexc, LOCK_CLASSES
from .common import *  # noqa
from .leaf import (H, fsget, fsput, loc_of, obj_loc, pidref_loc, cidref_loc, meta_loc, str_of,
                   VLocPath, _any_store_loc)
from . import checkers, refs
from .refs import classify, locked


def _list_case(it):
    return VList([])


def _pidrefs_path(it, s, p):
    return VPath(A_PIDS, (("shard", H(s, p)),))


def _mark_case(it):
    s = make_self(it)
    pid = sym_str("pid")
    it.ctx.assume(T.wsfree(pid.term))
    return [s, pid, VList([]), _pidrefs_path(it, s, pid.term)]


@contract("FileHashStore._mark_pid_refs_file_for_deletion", cases={"any": _mark_case},
          props={"*": ("C13", "C05")})
def _mark_pid_refs_file_for_deletion(it, self, pid, delete_list, pid_refs_path):
    l = loc_of(it, pid_refs_path)
    st = fsget(it, l)
    ok = z3.And(T.present(st), z3.Select(it.ctx.st.dirs, it.lib.parent_dir_of_loc(T.mark(l))))
    if it.ctx.branch(ok):
        fsput(it, T.mark(l), st)
        fsput(it, l, T.Absent)
        delete_list.items.append(pid_refs_path.with_(marks=pid_refs_path.marks + 1, pathobj=False))
        delete_list.guards.append(TRUE)
    return NONE      # a failure is swallowed (best effort)


def _remove_case(it):
    s = make_self(it)
    pid = sym_str("pid")
    it.ctx.assume(T.wsfree(pid.term))
    c = z3.String("cidk")
    it.ctx.assume(T.ishex(c))
    return [s, pid, VList([]), VPath(A_CIDS, (("shard", c),))]


@contract("FileHashStore._remove_pid_and_handle_cid_refs_deletion", cases={"any": _remove_case},
          pre=lambda it, self, pid, delete_list, cid_refs_path: [
              ("pid-wsfree", T.wsfree(str_of(it, pid)))],
          props={"*": ("C13", "C05")})
def _remove_pid_and_handle_cid_refs_deletion(it, self, pid, delete_list, cid_refs_path):
    l = loc_of(it, cid_refs_path)
    st = fsget(it, l)
    if it.ctx.branch(T.is_Absent(st)):
        return NONE      # swallowed
    m2 = z3.Store(T.as_lines(st), str_of(it, pid), z3.IntVal(0))
    fsput(it, l, T.LinesF(m2))
    if it.ctx.branch(m2 == T.NOLINES):
        if it.ctx.branch(z3.Select(it.ctx.st.dirs, it.lib.parent_dir_of_loc(T.mark(l)))):
            fsput(it, T.mark(l), T.LinesF(m2))
            fsput(it, l, T.Absent)
            delete_list.items.append(cid_refs_path.with_(marks=cid_refs_path.marks + 1,
                                                         pathobj=False))
            delete_list.guards.append(TRUE)
    return NONE


@contract("FileHashStore._validate_and_check_cid_lock",
          cases={"any": lambda it: [make_self(it), sym_str("pid"), opt_str(it, "cid"),
                                    opt_str(it, "cid_to_check")]},
          props={"*": ("C13", "C07")})
def _validate_and_check_cid_lock(it, self, pid, cid, cid_to_check):
    checkers._check_string(it, cid, VStr("cid"))
    checkers._check_string(it, cid_to_check, VStr("cid_to_check"))
    c, c2 = str_of(it, cid), str_of(it, cid_to_check)
    if it.ctx.branch(c != c2):
        raise_("ValueError")
    if it.ctx.branch(z3.Not(locked(it, "cid", c))):
        raise_("IdentifierNotLocked")
    return NONE


def _untag_case(it):
    s = make_self(it)
    pid, cid = sym_str("pid"), sym_str("cid")
    it.ctx.assume(z3.And(T.wsfree(pid.term), T.ishex(cid.term)))
    return [s, pid, cid]


@contract("FileHashStore._untag_object", cases={"any": _untag_case},
          pre=lambda it, self, pid, cid: [
              ("cid-is-digest", T.ishex(str_of(it, cid))),
              # derived from the call site (the reverting handler of _store_hashstore_refs_files):
              # the roll-back runs for a pid that this tagging step found unbound and may have
              # bound to `cid` itself; a caller that could pass a pid bound to another cid fails
              # this obligation (the body's own cid comparison is then a defensive check)
              ("pid-unbound-or-bound-to-this-cid",
               z3.Or(T.is_Absent(fsget(it, pidref_loc(self, str_of(it, pid)))),
                     fsget(it, pidref_loc(self, str_of(it, pid))) == T.Data(str_of(it, cid))))],
          inline_pre=("pid-unbound-or-bound-to-this-cid",),
          props={"*": ("C13", "C05", "C04")})
def _untag_object(it, self, pid, cid):
    """Remove the pid reference and the pid's line from the cid's list - never the data object -
    for whatever reference condition the pid is in; only for the cid that is locked by the caller
    and that the pid actually names."""
    ctx = it.ctx
    checkers._check_string(it, pid, VStr("pid"))
    checkers._check_string(it, cid, VStr("cid"))
    p, c = str_of(it, pid), str_of(it, cid)
    if ctx.branch(z3.Not(locked(it, "refpid", p))):
        raise_("IdentifierNotLocked")
    kind, named = classify(it, self, p)
    pl = pidref_loc(self, p)

    def drop_pid_ref():
        if ctx.branch(z3.Select(ctx.st.dirs, it.lib.parent_dir_of_loc(T.mark(pl)))):
            fsput(it, pl, T.Absent)
            fsput(it, T.mark(pl), T.Absent)

    def drop_line():
        cl = cidref_loc(c)
        st = fsget(it, cl)
        if ctx.branch(T.is_Absent(st)):
            return
        m2 = z3.Store(T.as_lines(st), p, z3.IntVal(0))
        fsput(it, cl, T.LinesF(m2))
        if ctx.branch(m2 == T.NOLINES):
            if ctx.branch(z3.Select(ctx.st.dirs, it.lib.parent_dir_of_loc(T.mark(cl)))):
                fsput(it, cl, T.Absent)
                fsput(it, T.mark(cl), T.Absent)
    if kind == "unbound":
        if ctx.branch(z3.Not(locked(it, "cid", c))):
            raise_("IdentifierNotLocked")
        drop_line()
        return NONE
    # the pid names `named`: refuse to untag another cid's binding
    _validate_and_check_cid_lock(it, self, pid, VStr(c), VStr(named))
    drop_pid_ref()
    if kind in ("bound", "object-missing"):
        drop_line()
    return NONE


# ---------------------------------------------------------------------------------------------------
# lookup / delete helpers
# ---------------------------------------------------------------------------------------------------
def _digest_arg(it):
    c = sym_str("cid")
    it.ctx.assume(T.ishex(c.term))
    return c


@contract("FileHashStore._get_hashstore_data_object_path", assumes_clean_cwd=True, use_at_calls=False,
          cases={"digest": lambda it: [make_self(it), _digest_arg(it)]},
          pre=lambda it, self, cid_or_relative_path: [
              ("is-digest", T.ishex(str_of(it, cid_or_relative_path)))],
          props={"*": ("C15", "C18", "C01")})
def _get_hashstore_data_object_path(it, self, cid_or_relative_path):
    c = str_of(it, cid_or_relative_path)
    if it.ctx.branch(T.is_Absent(fsget(it, obj_loc(c)))):
        raise_("FileNotFoundError")
    return VPath(A_OBJECTS, (("shard", c),), pathobj=True)


@contract("FileHashStore._exists", assumes_clean_cwd=True, use_at_calls=False,
          cases={"objects": lambda it: [make_self(it), VStr("objects"), _digest_arg(it)]},
          pre=lambda it, self, entity, file: [
              ("objects-entity", z3.BoolVal(entity.concrete() == "objects")),
              ("is-digest", T.ishex(str_of(it, file)))],
          props={"*": ("C01", "C17")})
def _exists(it, self, entity, file):
    return VBool(T.present(fsget(it, obj_loc(str_of(it, file)))))


@contract("FileHashStore._delete", assumes_clean_cwd=True, use_at_calls=False,
          cases={"objects": lambda it: [make_self(it), VStr("objects"), _digest_arg(it)],
                 "tmp": lambda it: [make_self(it), VStr("tmp"),
                                    VPath(A_OBJ_TMP, (("str", z3.String("tmpname")),), pathobj=False)],
                 "metadata": lambda it: (it.ctx.assume(z3.And(T.ishex(_hexs("d")), T.ishex(_hexs("n")))),
                                         [make_self(it), VStr("metadata"),
                                          VPath(A_METADATA, (("shard", _hexs("d")), ("str", _hexs("n"))))])[1]},
          pre=lambda it, self, entity, file: [
              ("known-entity", z3.BoolVal(entity.concrete() in ("objects", "tmp", "metadata")))],
          props={"*": ("C04", "C05", "C11")})
def _delete(it, self, entity, file):
    e = entity.concrete()
    if e == "objects":
        l = obj_loc(str_of(it, file))
        if it.ctx.branch(T.is_Absent(fsget(it, l))):
            raise_("FileNotFoundError")
        fsput(it, l, T.Absent)
        return NONE
    l = loc_of(it, file)
    if it.ctx.branch(T.is_Absent(fsget(it, l))):
        if e == "metadata":
            return NONE          # deleting what does not exist is a silent no-op
        raise_("FileNotFoundError")
    fsput(it, l, T.Absent)
    return NONE


def _hexs(name):
    return z3.String(name)
