"""Shared pieces of the sidecar contracts: the object invariant of FileHashStore instances and
argument builders."""
import z3
from vc import sorts as T
from vc.values import *  # noqa
from vc.engine import PyRaise, mkexc, LOCK_CLASSES
from vc.lib import ANCHOR_DIR, TRUE, FALSE
from vc.contract import Contract

REGISTRY = {}


def contract(qualname, **kw):
    def deco(spec):
        c = Contract(qualname, spec=spec, **kw)
        REGISTRY[qualname] = c
        return spec
    return deco


LOCK_ATTRS = {
    "objpid": ("object_pid_lock", "object_pid_condition", "object_locked_pids"),
    "cid": ("object_cid_lock", "object_cid_condition", "object_locked_cids"),
    "doc": ("metadata_lock", "metadata_condition", "metadata_locked_docs"),
    "refpid": ("reference_pid_lock", "reference_pid_condition", "reference_locked_pids"),
}
STORE_DIRS = (A_ROOT, A_OBJECTS, A_METADATA, A_REFS, A_CIDS, A_PIDS, A_OBJ_TMP, A_META_TMP,
              A_REFS_TMP)


def make_self(it, dirs_exist=True):
    """A symbolic FileHashStore instance satisfying the object invariant (post of __init__)."""
    ctx = it.ctx
    s = VObj("FileHashStore")
    depth, width = z3.Int("self.depth"), z3.Int("self.width")
    alg, ns = z3.String("self.algorithm"), z3.String("self.sysmeta_ns")
    ctx.assume(z3.And(depth >= 1, width >= 1))
    ctx.assume(z3.Or(*[alg == z3.StringVal(a) for a in T.DEFAULT5]))
    # the configured namespace is a usable format id (not a non-empty all-blank string)
    ctx.assume(z3.Not(z3.And(ns != T.EMPTY, T.allws(ns))))
    use_mp = z3.Bool("self.use_multiprocessing")
    f = s.f
    f["fhs_logger"] = VObj("logger")
    f["root"] = VPath(A_ROOT)
    f["objects"] = VPath(A_OBJECTS)
    f["metadata"] = VPath(A_METADATA)
    f["refs"] = VPath(A_REFS)
    f["cids"] = VPath(A_CIDS)
    f["pids"] = VPath(A_PIDS)
    f["hashstore_configuration_yaml"] = VPath(A_ROOT, (("lit", "hashstore.yaml"),))
    f["depth"] = VInt(depth)
    f["width"] = VInt(width)
    f["algorithm"] = VStr(alg)
    f["sysmeta_ns"] = VStr(ns)
    f["default_algo_list"] = VList([VStr(a) for a in T.DEFAULT5])
    f["use_multiprocessing"] = VBool(use_mp)
    guards = {}
    for cls, (lk, cond, lst) in LOCK_ATTRS.items():
        for flavor, g in (("mp", use_mp), ("th", z3.Not(use_mp))):
            f[f"{lk}_{flavor}"] = VObj("lock", flavor=flavor)
            f[f"{cond}_{flavor}"] = VObj("condition", lockcls=cls, flavor=flavor)
            f[f"{lst}_{flavor}"] = VObj("locklist", lockcls=cls, flavor=flavor)
            for n in (lk, cond, lst):
                guards[f"{n}_{flavor}"] = g
    f["_guards"] = guards
    from vc.interp import Env
    for name, expr in it.eng.class_attrs.get("FileHashStore", {}).items():
        if name not in f:
            f[name] = it.eval(expr, Env())   # class-level attributes, as written in the source
    if dirs_exist:
        for a in STORE_DIRS:
            ctx.assume(z3.Select(ctx.st.dirs, ANCHOR_DIR[a]))
    return s


def sym_str(name):
    return VStr(z3.String(name))


def opt_str(it, name):
    v = VDyn(name, (T_NONE, T_STR))
    it.ctx.assume(v.domain())
    return v


def dyn(it, name, tags):
    v = VDyn(name, tags)
    it.ctx.assume(v.domain())
    return v


def raise_(cls):
    raise PyRaise(mkexc(cls))


def dyn_is_none(v):
    if isinstance(v, VNone):
        return TRUE
    if isinstance(v, VDyn):
        return v.tag == T_NONE
    return FALSE


def dyn_str(v):
    """(is-a-str condition, string term) of a VStr / VDyn / other value."""
    if isinstance(v, VStr):
        return TRUE, v.term
    if isinstance(v, VDyn):
        return v.tag == T_STR, v.s
    return FALSE, T.EMPTY
