"""Contracts of the synchronisation methods and of the reference layer (C03, C04, C05, C07, C08)."""
import z3
from vc import sorts as T
from vc.values import *  # noqa
from vc.lib import TRUE, FALSE, fsize
from vc.engine import PyRaise, mkexc, LOCK_CLASSES
from .common import *  # noqa
from .leaf import (H, fsget, fsput, loc_of, obj_loc, pidref_loc, cidref_loc, meta_loc, str_of,
                   VLocPath, _any_store_loc)
from . import checkers

LOCK_ORDER = {"objpid": 0, "refpid": 1, "cid": 2, "doc": 3}


# ---------------------------------------------------------------------------------------------------
# synchronisation
# ---------------------------------------------------------------------------------------------------
def acquire(it, cls, k):
    st = it.ctx.st
    if it.ctx.__dict__.get("sequential"):
        it.ctx.assume(z3.Select(st.env[cls], k) == 0)
    else:
        env2 = it.ctx.fresh(f"env_{cls}", T.LockSort)
        it.ctx.assume(z3.Select(env2, k) == 0)      # the wait loop only exits when k is free
        st.env[cls] = env2
    st.own[cls] = z3.Store(st.own[cls], k, z3.Select(st.own[cls], k) + 1)
    st.held.append((cls, k))


def release(it, cls, k):
    st = it.ctx.st
    st.own[cls] = z3.Store(st.own[cls], k, z3.Select(st.own[cls], k) - 1)
    for i in range(len(st.held) - 1, -1, -1):
        if st.held[i][0] == cls and it.ctx.implied(st.held[i][1] == k):
            del st.held[i]
            break


def acquire_pre(cls):
    def pre(it, self, **kw):
        k = str_of(it, list(kw.values())[0])
        st = it.ctx.st
        out = [("not-already-held", z3.Select(st.own[cls], k) == 0)]
        ok = all(LOCK_ORDER[c] < LOCK_ORDER[cls] for c, _ in st.held)
        out.append(("lock-order", z3.BoolVal(ok)))
        return out
    return pre


def release_pre(cls):
    def pre(it, self, **kw):
        k = str_of(it, list(kw.values())[0])
        return [("releases-held-identifier", z3.Select(it.ctx.st.own[cls], k) > 0)]
    return pre


def _sync_case(it):
    return [make_self(it), sym_str("identifier")]


def _mk_sync(name, cls, param):
    @contract(f"FileHashStore._synchronize_{name}", cases={"any": _sync_case},
              pre=acquire_pre(cls), props={"*": ("C07", "C08", "C12", "C16")})
    def spec(it, self, **kw):
        acquire(it, cls, str_of(it, kw[param]))
        return NONE

    @contract(f"FileHashStore._release_{name}", cases={"any": _sync_case},
              pre=release_pre(cls), props={"*": ("C07", "C08", "C12", "C16")})
    def spec2(it, self, **kw):
        release(it, cls, str_of(it, kw[param]))
        return NONE


_mk_sync("object_locked_pids", "objpid", "pid")
_mk_sync("object_locked_cids", "cid", "cid")


@contract("FileHashStore._synchronize_referenced_locked_pids", cases={"any": _sync_case},
          pre=acquire_pre("refpid"), props={"*": ("C07", "C08", "C16")})
def _sync_refpid(it, self, pid):
    acquire(it, "refpid", str_of(it, pid))
    return NONE


@contract("FileHashStore._release_reference_locked_pids", cases={"any": _sync_case},
          pre=release_pre("refpid"), props={"*": ("C07", "C08", "C16")})
def _rel_refpid(it, self, pid):
    release(it, "refpid", str_of(it, pid))
    return NONE


def locked(it, cls, k):
    st = it.ctx.st
    return z3.Select(st.own[cls], k) + z3.Select(st.env[cls], k) > 0


@contract("FileHashStore._check_object_locked_cids", cases={"any": _sync_case},
          props={"*": ("C07", "C16")})
def _check_object_locked_cids(it, self, cid):
    if it.ctx.branch(z3.Not(locked(it, "cid", str_of(it, cid)))):
        raise_("IdentifierNotLocked")
    return NONE


@contract("FileHashStore._check_reference_locked_pids", cases={"any": _sync_case},
          props={"*": ("C07", "C16")})
def _check_reference_locked_pids(it, self, pid):
    if it.ctx.branch(z3.Not(locked(it, "refpid", str_of(it, pid)))):
        raise_("IdentifierNotLocked")
    return NONE


# ---------------------------------------------------------------------------------------------------
# reading the reference state
# ---------------------------------------------------------------------------------------------------
def P_state(it, self, pid):
    return fsget(it, pidref_loc(self, pid))


def C_state(it, c):
    return fsget(it, cidref_loc(c))


def C_lines(it, c):
    return T.as_lines(C_state(it, c))


def _refs_case(it):
    s = make_self(it)
    pid, cid = sym_str("pid"), sym_str("cid")
    it.ctx.assume(T.wsfree(pid.term))
    it.ctx.assume(T.ishex(cid.term))
    return s, pid, cid


@contract("FileHashStore._verify_hashstore_references",
          cases={"paths given": lambda it: (lambda s, p, c: [
              s, p, c, VPath(A_PIDS, (("shard", H(s, p.term)),)),
              VPath(A_CIDS, (("shard", c.term),)), VOpaque()])(*_refs_case(it)),
              "paths omitted": lambda it: (lambda s, p, c: [s, p, c, NONE, NONE, VOpaque()])(
                  *_refs_case(it))},
          props={"*": ("C03", "C05")})
def _verify_hashstore_references(it, self, pid, cid, pid_refs_path=NONE, cid_refs_path=NONE,
                                 additional_log_string=NONE):
    pl = pidref_loc(self, pid.term) if isinstance(pid_refs_path, VNone) else loc_of(it, pid_refs_path)
    cl = cidref_loc(cid.term) if isinstance(cid_refs_path, VNone) else loc_of(it, cid_refs_path)
    ps, cs = fsget(it, pl), fsget(it, cl)
    if it.ctx.branch(T.is_Absent(ps)):
        raise_("PidRefsFileNotFound")
    if it.ctx.branch(T.is_Absent(cs)):
        raise_("CidRefsFileNotFound")
    if it.ctx.branch(T.as_text(ps) != cid.term):
        raise_("PidRefsContentError")
    if it.ctx.branch(z3.Not(z3.Select(T.as_lines(cs), pid.term) > 0)):
        raise_("CidRefsContentError")
    return NONE


def _pid_case(it):
    s = make_self(it)
    return [s, opt_str(it, "pid")]


def classify(it, self, p):
    """Classification of a pid's reference condition (the four partial states + bound)."""
    ps = P_state(it, self, p)
    if it.ctx.branch(T.is_Absent(ps)):
        return "unbound", None
    c = T.as_text(ps)
    cs = C_state(it, c)
    if it.ctx.branch(T.is_Absent(cs)):
        return "orphan", c
    if it.ctx.branch(z3.Not(z3.Select(T.as_lines(cs), p) > 0)):
        return "not-in-list", c
    if it.ctx.branch(T.is_Absent(fsget(it, obj_loc(c)))):
        return "object-missing", c
    return "bound", c


CLASS_EXC = {"unbound": "PidRefsDoesNotExist", "orphan": "OrphanPidRefsFileFound",
             "not-in-list": "PidNotFoundInCidRefsFile",
             "object-missing": "RefsFileExistsButCidObjMissing"}


@contract("FileHashStore._find_object", assumes_clean_cwd=True, cases={"any pid": _pid_case},
          props={"*": ("C01", "C03", "C04", "C05", "C17")})
def _find_object(it, self, pid):
    checkers._check_string(it, pid, VStr("pid"))
    p = str_of(it, pid)
    kind, c = classify(it, self, p)
    if kind != "bound":
        raise_(CLASS_EXC[kind])
    sys_loc = meta_loc(self, p, self.f["sysmeta_ns"].term)
    sysmeta = VPath(A_METADATA, (("shard", T.l_k1(sys_loc)), ("str", T.l_k2(sys_loc))))
    if it.ctx.branch(T.is_Absent(fsget(it, sys_loc))):
        sysmeta = VStr("Does not exist.")
    return VDict([
        [TRUE, VStr("cid"), VStr(c)],
        [TRUE, VStr("cid_object_path"), VPath(A_OBJECTS, (("shard", c),))],
        [TRUE, VStr("cid_refs_path"), VPath(A_CIDS, (("shard", c),))],
        [TRUE, VStr("pid_refs_path"), VPath(A_PIDS, (("shard", H(self, p)),))],
        [TRUE, VStr("sysmeta_path"), sysmeta],
    ])


# ---------------------------------------------------------------------------------------------------
# tagging
# ---------------------------------------------------------------------------------------------------
def tag_effect(it, self, p, c):
    """delta_tag on an unbound pid: bind p to c and add p to c's list (no duplicate line)."""
    cs = C_state(it, c)
    m = z3.If(T.is_Absent(cs), T.NOLINES, T.as_lines(cs))
    m2 = z3.If(z3.Select(m, p) > 0, m, z3.Store(m, p, z3.Select(m, p) + 1))
    fsput(it, pidref_loc(self, p), T.Data(c))
    fsput(it, cidref_loc(c), T.LinesF(m2))


def tag_pre(it, self, pid, cid):
    p, c = str_of(it, pid), str_of(it, cid)
    return [("pid-wsfree", T.wsfree(p)), ("cid-is-digest", T.ishex(c))] + \
        [(f"{n}", f) for n, f in acquire_pre("refpid")(it, self, pid=pid)] + \
        [("cid-" + n, f) for n, f in acquire_pre("cid")(it, self, cid=cid)]


def _tag_case(it):
    s, p, c = _refs_case(it)
    return [s, p, c]


@contract("FileHashStore._store_hashstore_refs_files", cases={"any": _tag_case}, pre=tag_pre,
          props={"*": ("C03", "C05", "C08", "C19")})
def _store_hashstore_refs_files(it, self, pid, cid):
    p, c = str_of(it, pid), str_of(it, cid)
    bound = T.present(P_state(it, self, p))
    if it.ctx.branch(bound):
        if it.ctx.branch(T.present(C_state(it, c))):
            raise_("HashStoreRefsAlreadyExists")
        raise_("PidRefsAlreadyExistsError")
    tag_effect(it, self, p, c)
    return NONE


@contract("FileHashStore.tag_object",
          cases={"any": lambda it: [make_self(it), opt_str(it, "pid"), opt_str(it, "cid")]},
          pre=lambda it, self, pid, cid: [
              ("cid-is-digest", z3.Implies(z3.And(dyn_str(cid)[0], T.wsfree(dyn_str(cid)[1])),
                                           T.ishex(dyn_str(cid)[1]))),
              ("pid-not-already-held", z3.Select(it.ctx.st.own["refpid"], dyn_str(pid)[1]) == 0),
              ("cid-not-already-held", z3.Select(it.ctx.st.own["cid"], dyn_str(cid)[1]) == 0),
              ("lock-order", z3.BoolVal(all(LOCK_ORDER[c] < LOCK_ORDER["refpid"]
                                            for c, _ in it.ctx.st.held)))],
          props={"*": ("C03", "C05", "C17", "C19")})
def tag_object(it, self, pid, cid):
    checkers._check_string(it, pid, VStr("pid"))
    checkers._check_string(it, cid, VStr("cid"))
    return _store_hashstore_refs_files(it, self, VStr(str_of(it, pid)), VStr(str_of(it, cid)))
