"""Contracts of the object layer: streams, the write loop, validation, store / retrieve / delete
(C01, C02, C04, C05, C06, C19)."""
import z3
from vc import sorts as T
from vc.values import *  # noqa
from vc.lib import TRUE, FALSE, fsize, TMP_KIND, ANCHOR_DIR
from vc.engine import PyRaise, mkexc, LOCK_CLASSES
from .common import *  # noqa
from .leaf import (H, fsget, fsput, loc_of, obj_loc, pidref_loc, cidref_loc, meta_loc, str_of,
                   VLocPath, _any_store_loc, pathstr)
from . import checkers, refs
from .checkers import data_cases, DATA_OK, clean_of, canon
from .refs import acquire, release, classify, CLASS_EXC, tag_effect, C_state, P_state, locked


# ---------------------------------------------------------------------------------------------------
# Stream
# ---------------------------------------------------------------------------------------------------
def stream_content(it, stream):
    """Whole content (from offset 0) of the object underlying a Stream."""
    return it.lib.handle_content(it, stream.f["_obj"])


def _stream_cases():
    out = {}
    for k, f in data_cases().items():
        if k in DATA_OK:
            out[k] = (lambda f: lambda it: [VObj("Stream"), f(it)])(f)
    return out


def _bufsize_ok(it, case_name, out_b):
    pass


@contract("Stream.__init__", cases=_stream_cases(), props={"*": ("C01", "C11")})
def stream_init(it, self, obj):
    lib = it.lib
    if isinstance(obj, VObj) and obj.cls == "file":
        self.f["_obj"] = obj
        self.f["_pos"] = VInt(obj.f["pos"])
    else:
        loc = loc_of(it, obj)
        if it.ctx.branch(T.is_Absent(fsget(it, loc))):
            raise_("ValueError")
        h = VObj("file", loc=loc, mode="r", binary=True, pos=z3.IntVal(0), closed=False,
                 namev=obj, kind="real")
        it.ctx.__dict__.setdefault("handles", []).append(h)
        self.f["_obj"] = h
        self.f["_pos"] = NONE
    bs = it.ctx.fresh("bufsize", T.I)
    it.ctx.assume(bs >= 1)
    self.f["_buffer_size"] = VInt(bs)
    return NONE


def _stream_obj(it, kind):
    from vc.engine import PathPruned
    s = VObj("Stream")
    try:
        stream_init(it, s, data_cases()[kind](it))
    except PyRaise:
        raise PathPruned()      # only successfully constructed streams are arguments
    return s


def _close_cases():
    return {k: (lambda k: lambda it: [_stream_obj(it, k)])(k) for k in DATA_OK}


@contract("Stream.close", cases=_close_cases(), props={"*": ("C01",)})
def stream_close(it, self):
    h = self.f["_obj"]
    if isinstance(self.f["_pos"], VDyn):
        raise Undecided("Stream.close on a generic stream")
    if isinstance(self.f["_pos"], VNone):
        h.f["closed"] = True
    else:
        if h.f["closed"]:
            raise_("ValueError")
        h.f["pos"] = self.f["_pos"].term
    return NONE


def consume(it, stream):
    """Effect of iterating a Stream to exhaustion; returns the content."""
    h = stream.f["_obj"]
    if h.f["closed"]:
        raise_("ValueError")
    content = stream_content(it, stream)
    rp = stream.f["_pos"]
    if isinstance(rp, VNone):
        h.f["pos"] = z3.Length(content)
    elif isinstance(rp, VDyn):
        h.f["pos"] = z3.If(rp.tag == T_NONE, z3.Length(content), rp.i)
    else:
        h.f["pos"] = rp.term
    return content


# ---------------------------------------------------------------------------------------------------
# digest list
# ---------------------------------------------------------------------------------------------------
def _algo_arg(it, name):
    """None or a *cleaned* algorithm name (the callers pass the checked values)."""
    v = opt_str(it, name)
    it.ctx.assume(z3.Implies(v.tag == T_STR,
                             z3.Or(*[v.s == z3.StringVal(n) for n in T.SUPPORTED12])))
    return v


def in_other(s):
    return z3.Or(*[s == z3.StringVal(n) for n in T.OTHER7])


@contract("FileHashStore._refine_algorithm_list",
          cases={"any": lambda it: [make_self(it), _algo_arg(it, "additional_algorithm"),
                                    _algo_arg(it, "checksum_algorithm")]},
          props={"*": ("C02", "C06")})
def _refine_algorithm_list(it, self, additional_algorithm, checksum_algorithm):
    items = [VStr(n) for n in T.DEFAULT5]
    guards = [TRUE] * 5
    for v in (checksum_algorithm, additional_algorithm):   # order of the documented result: a set
        isstr, s = dyn_str(v)
        if it.ctx.branch(isstr):
            clean_of(it, VStr(s))
            items.append(VStr(s))
            guards.append(in_other(s))
    return it.lib.make_set(it, VList(items, guards))


# ---------------------------------------------------------------------------------------------------
# the write loop
# ---------------------------------------------------------------------------------------------------
def _tmp_cases():
    out = {}
    for k in DATA_OK:
        out[k] = (lambda k: lambda it: [make_self(it), _stream_obj(it, k),
                                        _algo_arg(it, "additional_algorithm"),
                                        _algo_arg(it, "checksum_algorithm")])(k)
    return out


def digest_map(it, add, ca, content):
    """The hex_digests map of C02 as a function: keys = the five defaults plus the additional
    and checksum algorithms of this very call (when they are not defaults), each mapped to the
    true digest of the content.  No other state enters."""
    a_str, a = dyn_str(add)
    c_str, c = dyn_str(ca)

    def has(k):
        return z3.Or(*([k == z3.StringVal(n) for n in T.DEFAULT5]
                       + [z3.And(a_str, k == a, in_other(a)), z3.And(c_str, k == c, in_other(c))]))

    def get(k):
        return VStr(T.Hd(k, content))
    return VObj("symdict", fn_has=has, fn_get=get)


@contract("FileHashStore._write_to_tmp_file_and_get_hex_digests", cases=_tmp_cases(),
          props={"*": ("C01", "C02", "C09")})
def _write_to_tmp(it, self, stream, additional_algorithm=NONE, checksum_algorithm=NONE):
    for v in (checksum_algorithm, additional_algorithm):
        if it.ctx.branch(dyn_str(v)[0]):
            clean_of(it, VStr(dyn_str(v)[1]))
    st = it.ctx.st
    st.dirs = z3.Store(st.dirs, ANCHOR_DIR[A_OBJ_TMP], TRUE)
    name = T.fresh_tmp(st.fs, z3.IntVal(T.K_TMP_OBJ))
    loc = T.loc(T.K_TMP_OBJ, name)
    content = consume(it, stream)
    fsput(it, loc, T.Data(content))
    hd = digest_map(it, additional_algorithm, checksum_algorithm, content)
    return VTuple([hd, VPath(A_OBJ_TMP, (("str", name),), pathobj=False),
                   VInt(z3.Length(content))])


# ---------------------------------------------------------------------------------------------------
# validation verdict
# ---------------------------------------------------------------------------------------------------
def digest_lookup(it, hd, key):
    """(found, value) of key in a digest dictionary."""
    if isinstance(hd, VObj) and hd.cls == "symdict":
        return hd.f["fn_has"](key), hd.f["fn_get"](key).term
    found = z3.Or(FALSE, *[z3.And(g, k.term == key) for g, k, v in hd.entries])
    val = T.EMPTY
    for g, k, v in reversed(hd.entries):
        val = z3.If(z3.And(g, k.term == key), v.term, val)
    return found, val


def verdict(it, self, cs, ca, hd, content, n, size, on_demand_ok=True):
    """Returns None (valid) or the mismatch class, per C06: size equals the true byte count and
    the checksum equals, as case-insensitive hex, the true digest under the named algorithm."""
    size_none = dyn_is_none(size)
    sz = size.i if isinstance(size, VDyn) else (size.term if isinstance(size, VInt) else None)
    if sz is not None and it.ctx.branch(z3.And(z3.Not(size_none), sz != n)):
        return "NonMatchingObjSize"
    cs_str, cs_t = dyn_str(cs)
    ca_str, ca_t = dyn_str(ca)
    if it.ctx.branch(z3.And(cs_str, ca_str)):
        found, val = digest_lookup(it, hd, ca_t)
        if not it.ctx.branch(found):
            clean_of(it, VStr(ca_t))            # UnsupportedAlgorithm when not accepted
            val = T.Hd(canon(ca_t), content)
        if it.ctx.branch(T.lower(cs_t) != val):
            return "NonMatchingChecksum"
    return None


def _voi_case(pid_none):
    def f(it):
        s = make_self(it)
        content = z3.String("content")
        alg = s.f["algorithm"].term
        cid = T.Hd(alg, content)
        ca = _algo_arg(it, "checksum_algorithm")
        cs = opt_str(it, "checksum")
        it.ctx.assume(z3.Implies(cs.tag == T_STR, T.wsfree(cs.s)))
        size = dyn(it, "file_size_to_validate", (T_NONE, T_INT))
        it.ctx.assume(z3.Implies(size.tag == T_INT, size.i >= 1))
        add = _algo_arg(it, "additional")
        if pid_none:
            hd = digest_map(it, NONE, NONE, content)
            pid = NONE
            tmp = NONE
            it.ctx.assume(fsget(it, obj_loc(cid)) == T.Data(content))
        else:
            hd = digest_map(it, add, ca, content)
            pid = sym_str("pid")
            name = z3.String("tmpname")
            tl = T.loc(T.K_TMP_OBJ, name)
            it.ctx.assume(fsget(it, tl) == T.Data(content))
            tmp = VPath(A_OBJ_TMP, (("str", name),), pathobj=False)
        return [s, pid, cs, ca, VStr("objects"), hd, tmp, VInt(z3.Length(content)), size]
    return f


@contract("FileHashStore._verify_object_information",
          cases={"store path (pid)": _voi_case(False), "stored object (no pid)": _voi_case(True)},
          props={"*": ("C06", "C19")})
def _verify_object_information(it, self, pid, checksum, checksum_algorithm, entity, hex_digests,
                               tmp_file_name, tmp_file_size, file_size_to_validate):
    alg = self.f["algorithm"].term
    if isinstance(pid, VNone):
        found, c = digest_lookup(it, hex_digests, alg)
        content = T.as_text(fsget(it, obj_loc(c)))
    else:
        content = T.as_text(fsget(it, loc_of(it, tmp_file_name)))
    v = verdict(it, self, checksum, checksum_algorithm, hex_digests, content, tmp_file_size.term,
                file_size_to_validate)
    if v is not None:
        if not isinstance(pid, VNone):
            fsput(it, loc_of(it, tmp_file_name), T.Absent)
        raise_(v)
    return NONE


# ---------------------------------------------------------------------------------------------------
# moving into place
# ---------------------------------------------------------------------------------------------------
def _validation_args(it):
    add = _algo_arg(it, "additional_algorithm")
    cs = opt_str(it, "checksum")
    ca = _algo_arg(it, "checksum_algorithm")
    it.ctx.assume((cs.tag == T_NONE) == (ca.tag == T_NONE))
    it.ctx.assume(z3.Implies(cs.tag == T_STR, T.wsfree(cs.s)))
    size = dyn(it, "file_size_to_validate", (T_NONE, T_INT))
    it.ctx.assume(z3.Implies(size.tag == T_INT, size.i >= 1))
    return add, cs, ca, size


def _move_cases():
    def with_pid(it):
        s = make_self(it)
        pid = sym_str("pid")
        it.ctx.assume(T.wsfree(pid.term))
        return [s, pid, generic_stream(it)] + list(_validation_args(it))

    def no_pid(it):
        return [make_self(it), NONE, generic_stream(it), NONE, NONE, NONE, NONE]
    return {"pid": with_pid, "no pid": no_pid}


def store_bytes(it, self, pid, stream, add, cs, ca, size):
    """delta of putting the stream's bytes into the object area, with validation."""
    alg = self.f["algorithm"].term
    r = _write_to_tmp(it, self, stream, add, ca)
    hd, tmp, n = r.items
    tl = loc_of(it, tmp)
    content = T.as_text(fsget(it, tl))
    c = T.Hd(alg, content)
    fsput(it, tl, T.Absent)            # the temporary file never survives the call
    v = verdict(it, self, cs, ca, hd, content, n.term, size)
    if v is not None:
        raise_(v)
    ol = obj_loc(c)
    if it.ctx.branch(T.is_Absent(fsget(it, ol))):
        fsput(it, ol, T.Data(content))
        it.ctx.st.dirs = z3.Store(it.ctx.st.dirs, it.lib.parent_dir_of_loc(ol), TRUE)
    return VTuple([VStr(c), n, hd])


@contract("FileHashStore._move_and_get_checksums", cases=_move_cases(),
          props={"*": ("C01", "C04", "C05", "C06", "C09")})
def _move_and_get_checksums(it, self, pid, stream, additional_algorithm=NONE, checksum=NONE,
                            checksum_algorithm=NONE, file_size_to_validate=NONE):
    return store_bytes(it, self, pid, stream, additional_algorithm, checksum, checksum_algorithm,
                       file_size_to_validate)


# ---------------------------------------------------------------------------------------------------
# argument checking of store_object
# ---------------------------------------------------------------------------------------------------
@contract("FileHashStore._check_arg_algorithms_and_checksum",
          cases={"any": lambda it: [make_self(it), opt_str(it, "additional_algorithm"),
                                    opt_str(it, "checksum"), opt_str(it, "checksum_algorithm")]},
          props={"*": ("C17", "C06", "C02")})
def _check_arg_algorithms_and_checksum(it, self, additional_algorithm, checksum,
                                       checksum_algorithm):
    a_str, a = dyn_str(additional_algorithm)
    add2 = NONE
    if it.ctx.branch(z3.And(a_str, a != self.f["algorithm"].term)):
        add2 = clean_of(it, VStr(a))
    ca2 = NONE
    if it.ctx.branch(z3.Not(dyn_is_none(checksum))):
        checkers._check_string(it, checksum_algorithm, VStr("checksum_algorithm"))
    if it.ctx.branch(z3.Not(dyn_is_none(checksum_algorithm))):
        checkers._check_string(it, checksum, VStr("checksum"))
        ca2 = clean_of(it, VStr(dyn_str(checksum_algorithm)[1]))
    return VTuple([add2, ca2])


# ---------------------------------------------------------------------------------------------------
# store
# ---------------------------------------------------------------------------------------------------
def generic_stream(it):
    """A Stream over any accepted source: the kinds only differ in how Stream.__init__ obtains
    the handle and the restore offset, which is all the callers of the write loop depend on."""
    content = z3.String("stream_content")
    pos = dyn(it, "stream_restore_pos", (T_NONE, T_INT))
    it.ctx.assume(z3.Implies(pos.tag == T_INT, z3.And(pos.i >= 0, pos.i <= z3.Length(content))))
    h = VObj("file", loc=None, content=content, mode="r", binary=True, pos=z3.Int("stream_pos"),
             closed=False, noname=True, namev=NONE, kind="user")
    bs = z3.Int("bufsize")
    it.ctx.assume(bs >= 1)
    return VObj("Stream", _obj=h, _pos=pos, _buffer_size=VInt(bs))


def store_validated(it, self, pid, data, add, cs, ca, size, pid_label=None):
    stream = VObj("Stream")
    stream_init(it, stream, data)
    try:
        r = store_bytes(it, self, pid, stream, add, cs, ca, size)
    finally:
        stream_close(it, stream)
    c, n, hd = r.items
    return VObj("ObjectMetadata", pid=pid_label if pid_label is not None else pid, cid=c,
                obj_size=n, hex_digests=hd)


def _sav_cases():
    out = {}
    for k, f in data_cases().items():
        if k not in DATA_OK:
            continue

        def mk(it, f=f):
            s = make_self(it)
            pid = sym_str("pid")
            it.ctx.assume(T.wsfree(pid.term))
            return [s, pid, f(it)] + list(_validation_args(it))
        out[k] = mk
    return out


@contract("FileHashStore._store_and_validate_data", cases=_sav_cases(),
          props={"*": ("C01", "C02", "C06")})
def _store_and_validate_data(it, self, pid, file, additional_algorithm=NONE, checksum=NONE,
                             checksum_algorithm=NONE, file_size_to_validate=NONE):
    return store_validated(it, self, pid, file, additional_algorithm, checksum,
                           checksum_algorithm, file_size_to_validate)


@contract("FileHashStore._store_data_only",
          cases={k: (lambda f: lambda it: [make_self(it), f(it)])(f)
                 for k, f in data_cases().items() if k in DATA_OK},
          props={"*": ("C01", "C02", "C19")})
def _store_data_only(it, self, data):
    return store_validated(it, self, NONE, data, NONE, NONE, NONE, NONE,
                           pid_label=VStr("HashStoreNoPid"))


def _store_cases():
    out = {}
    for k, f in data_cases().items():
        def mk(it, f=f):
            s = make_self(it)
            return [s, opt_str(it, "pid"), f(it), opt_str(it, "additional_algorithm"),
                    opt_str(it, "checksum"), opt_str(it, "checksum_algorithm"),
                    dyn(it, "expected_object_size", (T_NONE, T_INT, T_STR, T_OTHER))]
        out[k] = mk
    return out


def store_object_pre(it, self, pid=NONE, data=NONE, additional_algorithm=NONE, checksum=NONE,
                     checksum_algorithm=NONE, expected_object_size=NONE):
    st = it.ctx.st
    isstr, p = dyn_str(pid)
    pre = [("no-lock-held-by-caller", z3.BoolVal(not st.held))]
    for c in LOCK_CLASSES:
        pre.append((f"own-{c}-empty", st.own[c] == T.NOLOCKS))
    if isinstance(pid, VNone) or True:
        pre.append(("one-argument-form", z3.Implies(
            dyn_is_none(pid), z3.And(dyn_is_none(additional_algorithm), dyn_is_none(checksum),
                                     dyn_is_none(checksum_algorithm),
                                     dyn_is_none(expected_object_size)))))
    return pre


@contract("FileHashStore.store_object", cases=_store_cases(), pre=store_object_pre,
          props={"*": ("C01", "C02", "C03", "C05", "C06", "C17", "C19", "C08")})
def store_object(it, self, pid=NONE, data=NONE, additional_algorithm=NONE, checksum=NONE,
                 checksum_algorithm=NONE, expected_object_size=NONE):
    ctx = it.ctx
    if ctx.branch(dyn_is_none(pid)):
        checkers._check_arg_data(it, data)
        return _store_data_only(it, self, data)
    checkers._check_string(it, pid, VStr("pid"))
    checkers._check_arg_data(it, data)
    checkers._check_integer(it, expected_object_size)
    add2, ca2 = _check_arg_algorithms_and_checksum(it, self, additional_algorithm, checksum,
                                                   checksum_algorithm).items
    p = str_of(it, pid)
    if ctx.branch(locked(it, "objpid", p)):
        raise_("StoreObjectForPidAlreadyInProgress")
    acquire(it, "objpid", p)
    try:
        om = store_validated(it, self, VStr(p), data, add2, checksum, ca2, expected_object_size)
        refs._store_hashstore_refs_files(it, self, VStr(p), om.f["cid"])
    finally:
        release(it, "objpid", p)
    om.f["pid"] = pid
    return om


# ---------------------------------------------------------------------------------------------------
# retrieve / digest
# ---------------------------------------------------------------------------------------------------
def open_obj(it, c):
    loc = obj_loc(c)
    if it.ctx.branch(T.is_Absent(fsget(it, loc))):
        raise_("FileNotFoundError")
    h = VObj("file", loc=loc, mode="r", binary=True, pos=z3.IntVal(0), closed=False,
             namev=VPath(A_OBJECTS, (("shard", c),)), kind="real")
    it.ctx.__dict__.setdefault("handles", []).append(h)
    return h


@contract("FileHashStore.retrieve_object", cases={"any pid": refs._pid_case},
          props={"*": ("C01", "C04", "C17")})
def retrieve_object(it, self, pid):
    d = refs._find_object(it, self, pid)
    c = d.entries[0][2].term
    return open_obj(it, c)


@contract("FileHashStore.get_hex_digest",
          cases={"any": lambda it: [make_self(it), opt_str(it, "pid"), opt_str(it, "algorithm")]},
          compare=("outcome", "result", "fs", "locks", "self"),
          props={"*": ("C02", "C17")})
def get_hex_digest(it, self, pid, algorithm):
    checkers._check_string(it, pid, VStr("pid"))
    checkers._check_string(it, algorithm, VStr("algorithm"))
    a = clean_of(it, VStr(str_of(it, algorithm)))
    d = refs._find_object(it, self, pid)
    c = d.entries[0][2].term
    content = T.as_text(fsget(it, obj_loc(c)))
    return VStr(T.Hd(a.term, content))


# ---------------------------------------------------------------------------------------------------
# delete
# ---------------------------------------------------------------------------------------------------
def clear_meta_dir(it, self, p):
    """Remove every file (documents and deletion-marker leftovers) of pid p's metadata directory."""
    d = H(self, p)
    fs = it.ctx.st.fs
    x = z3.Const("x!loc", T.Loc)
    it.ctx.st.fs = z3.Lambda([x], z3.If(z3.And(T.l_kind(x) == T.K_META, T.l_k1(x) == d),
                                        T.Absent, z3.Select(fs, x)))


def untag_lines(it, c, p):
    """Remove p from c's list (whole-line); returns the emptiness condition of the new list."""
    cl = cidref_loc(c)
    m = T.as_lines(fsget(it, cl))
    m2 = z3.Store(m, p, z3.IntVal(0))
    fsput(it, cl, T.LinesF(m2))
    return m2 == T.NOLINES


def delete_object_pre(it, self, pid):
    st = it.ctx.st
    isstr, p = dyn_str(pid)
    ok = all(refs.LOCK_ORDER[c] < refs.LOCK_ORDER["objpid"] for c, _ in st.held)
    d = H(self, p)
    fs = st.fs
    return [("no-lock-held-by-caller", z3.BoolVal(ok)),
            ("pid-not-already-held", z3.Select(st.own["objpid"], p) == 0),
            ("own-cid-empty", st.own["cid"] == T.NOLOCKS),
            ("own-doc-empty", st.own["doc"] == T.NOLOCKS),
            ("no-marker-leftovers", lambda x: z3.Implies(
                z3.And(isstr, T.l_kind(x) == T.K_META, T.l_k1(x) == d, T.l_marks(x) >= 1),
                T.is_Absent(z3.Select(fs, x))))]


@contract("FileHashStore.delete_object", cases={"any pid": refs._pid_case}, pre=delete_object_pre,
          props={"*": ("C03", "C04", "C05", "C08", "C11", "C17")})
def delete_object(it, self, pid):
    ctx = it.ctx
    checkers._check_string(it, pid, VStr("pid"))
    p = str_of(it, pid)
    kind, c = classify(it, self, p)
    if kind == "unbound":
        raise_("PidRefsDoesNotExist")
    pl = pidref_loc(self, p)
    fsput(it, pl, T.Absent)
    fsput(it, T.mark(pl), T.Absent)
    if kind in ("bound", "object-missing"):
        empty = untag_lines(it, c, p)
        if ctx.branch(empty):
            fsput(it, cidref_loc(c), T.Absent)
            fsput(it, T.mark(cidref_loc(c)), T.Absent)
            if kind == "bound":
                fsput(it, obj_loc(c), T.Absent)
                fsput(it, T.mark(obj_loc(c)), T.Absent)
    clear_meta_dir(it, self, p)
    return NONE


def _cid_case(it):
    s = make_self(it)
    c = sym_str("cid")
    it.ctx.assume(T.ishex(c.term))
    return [s, c]


@contract("FileHashStore._delete_object_only", assumes_clean_cwd=True, cases={"any cid": _cid_case},
          pre=lambda it, self, cid: [(n, f) for n, f in refs.acquire_pre("cid")(it, self, cid=cid)]
          + [("cid-is-digest", T.ishex(str_of(it, cid)))],
          props={"*": ("C04", "C06", "C08")})
def _delete_object_only(it, self, cid):
    c = str_of(it, cid)
    if it.ctx.branch(T.present(C_state(it, c))):
        return NONE
    if it.ctx.branch(T.is_Absent(fsget(it, obj_loc(c)))):
        raise_("FileNotFoundError")
    fsput(it, obj_loc(c), T.Absent)
    return NONE


def stored_object_metadata(it, self, name="om"):
    """An ObjectMetadata as store_object returns it for content present in the store."""
    content = z3.String(name + "_content")
    alg = self.f["algorithm"].term
    c = T.Hd(alg, content)
    it.ctx.assume(fsget(it, obj_loc(c)) == T.Data(content))
    hd = digest_map(it, NONE, NONE, content)
    return VObj("ObjectMetadata", pid=VStr("HashStoreNoPid"), cid=VStr(c),
                obj_size=VInt(z3.Length(content)), hex_digests=hd)


def _dii_cases():
    def stored(it):
        s = make_self(it)
        return [s, stored_object_metadata(it, s), opt_str(it, "checksum"),
                opt_str(it, "checksum_algorithm"),
                dyn(it, "expected_file_size", (T_NONE, T_INT, T_STR, T_OTHER))]

    def none(it):
        s = make_self(it)
        return [s, NONE, opt_str(it, "checksum"), opt_str(it, "checksum_algorithm"),
                dyn(it, "expected_file_size", (T_NONE, T_INT, T_STR, T_OTHER))]

    def other(it):
        s = make_self(it)
        return [s, dyn(it, "object_metadata", (T_OTHER, T_STR)), opt_str(it, "checksum"),
                opt_str(it, "checksum_algorithm"),
                dyn(it, "expected_file_size", (T_NONE, T_INT, T_STR, T_OTHER))]
    return {"stored object": stored, "None": none, "not ObjectMetadata": other}


@contract("FileHashStore.delete_if_invalid_object", cases=_dii_cases(),
          pre=lambda it, self, object_metadata, checksum, checksum_algorithm, expected_file_size: [
              ("own-cid-empty", it.ctx.st.own["cid"] == T.NOLOCKS),
              ("no-lock-held-by-caller", z3.BoolVal(not it.ctx.st.held))],
          props={"*": ("C04", "C06", "C17", "C19")})
def delete_if_invalid_object(it, self, object_metadata, checksum, checksum_algorithm,
                             expected_file_size):
    checkers._check_string(it, checksum, VStr("checksum"))
    checkers._check_string(it, checksum_algorithm, VStr("checksum_algorithm"))
    checkers._check_integer(it, expected_file_size)
    if not (isinstance(object_metadata, VObj) and object_metadata.cls == "ObjectMetadata"):
        raise_("ValueError")
    om = object_metadata
    ca = clean_of(it, VStr(str_of(it, checksum_algorithm)))
    c = om.f["cid"].term
    content = T.as_text(fsget(it, obj_loc(c)))
    v = verdict(it, self, checksum, ca, om.f["hex_digests"], content, om.f["obj_size"].term,
                expected_file_size)
    if v is not None:
        _delete_object_only(it, self, VStr(c))
        raise_(v)
    return NONE
