"""Contracts of the object layer: streams, the write loop, validation, store / retrieve / delete
(C01, C02, C04, C05, C06, C19)."""
import z3
from vc import sorts as T
from vc.values import *  # noqa
from vc.lib import TRUE, FALSE, fsize, TMP_KIND, ANCHOR_DIR
from vc.engine import PyRaise, mkexc, LOCK_CLASSES
from .common import *  # noqa
from .leaf import (H, fsget, fsput, loc_of, obj_loc, pidref_loc, cidref_loc, meta_loc, str_of,
                   VLocPath, _any_store_loc, pathstr)
from . import checkers, refs
from .checkers import data_cases, DATA_OK, clean_of, canon
from .refs import acquire, release, classify, CLASS_EXC, tag_effect, C_state, P_state, locked


# ---------------------------------------------------------------------------------------------------
# Stream
# ---------------------------------------------------------------------------------------------------
def stream_content(it, stream):
    """Whole content (from offset 0) of the object underlying a Stream."""
    return it.lib.handle_content(it, stream.f["_obj"])


def _stream_cases():
    out = {}
    for k, f in data_cases().items():
        if k in DATA_OK:
            out[k] = (lambda f: lambda it: [VObj("Stream"), f(it)])(f)
    return out


def _bufsize_ok(it, case_name, out_b):
    pass


@contract("Stream.__init__", cases=_stream_cases(), props={"*": ("C01", "C11")})
def stream_init(it, self, obj):
    lib = it.lib
    if isinstance(obj, VObj) and obj.cls == "file":
        self.f["_obj"] = obj
        self.f["_pos"] = VInt(obj.f["pos"])
    else:
        loc = loc_of(it, obj)
        if it.ctx.branch(T.is_Absent(fsget(it, loc))):
            raise_("ValueError")
        h = VObj("file", loc=loc, mode="r", binary=True, pos=z3.IntVal(0), closed=False,
                 namev=obj, kind="real")
        it.ctx.__dict__.setdefault("handles", []).append(h)
        self.f["_obj"] = h
        self.f["_pos"] = NONE
    bs = it.ctx.fresh("bufsize", T.I)
    it.ctx.assume(bs >= 1)
    self.f["_buffer_size"] = VInt(bs)
    return NONE


def _stream_obj(it, kind):
    from vc.engine import PathPruned
    s = VObj("Stream")
    try:
        stream_init(it, s, data_cases()[kind](it))
    except PyRaise:
        raise PathPruned()      # only successfully constructed streams are arguments
    return s


def _close_cases():
    return {k: (lambda k: lambda it: [_stream_obj(it, k)])(k) for k in DATA_OK}


@contract("Stream.close", cases=_close_cases(), props={"*": ("C01",)})
def stream_close(it, self):
    h = self.f["_obj"]
    if isinstance(self.f["_pos"], VNone):
        h.f["closed"] = True
    else:
        if h.f["closed"]:
            raise_("ValueError")
        h.f["pos"] = self.f["_pos"].term
    return NONE


def consume(it, stream):
    """Effect of iterating a Stream to exhaustion; returns the content."""
    h = stream.f["_obj"]
    if h.f["closed"]:
        raise_("ValueError")
    content = stream_content(it, stream)
    if isinstance(stream.f["_pos"], VNone):
        h.f["pos"] = z3.Length(content)
    else:
        h.f["pos"] = stream.f["_pos"].term
    return content


# ---------------------------------------------------------------------------------------------------
# digest list
# ---------------------------------------------------------------------------------------------------
def _algo_arg(it, name):
    """None or a *cleaned* algorithm name (the callers pass the checked values)."""
    v = opt_str(it, name)
    it.ctx.assume(z3.Implies(v.tag == T_STR,
                             z3.Or(*[v.s == z3.StringVal(n) for n in T.SUPPORTED12])))
    return v


def in_other(s):
    return z3.Or(*[s == z3.StringVal(n) for n in T.OTHER7])


@contract("FileHashStore._refine_algorithm_list",
          cases={"any": lambda it: [make_self(it), _algo_arg(it, "additional_algorithm"),
                                    _algo_arg(it, "checksum_algorithm")]},
          props={"*": ("C02", "C06")})
def _refine_algorithm_list(it, self, additional_algorithm, checksum_algorithm):
    items = [VStr(n) for n in T.DEFAULT5]
    guards = [TRUE] * 5
    for v in (checksum_algorithm, additional_algorithm):   # order of the documented result: a set
        isstr, s = dyn_str(v)
        if it.ctx.branch(isstr):
            clean_of(it, VStr(s))
            items.append(VStr(s))
            guards.append(in_other(s))
    return it.lib.make_set(it, VList(items, guards))


# ---------------------------------------------------------------------------------------------------
# the write loop
# ---------------------------------------------------------------------------------------------------
def _tmp_cases():
    out = {}
    for k in DATA_OK:
        out[k] = (lambda k: lambda it: [make_self(it), _stream_obj(it, k),
                                        _algo_arg(it, "additional_algorithm"),
                                        _algo_arg(it, "checksum_algorithm")])(k)
    return out


@contract("FileHashStore._write_to_tmp_file_and_get_hex_digests", cases=_tmp_cases(),
          props={"*": ("C01", "C02", "C09")})
def _write_to_tmp(it, self, stream, additional_algorithm=NONE, checksum_algorithm=NONE):
    algs = _refine_algorithm_list(it, self, additional_algorithm, checksum_algorithm)
    st = it.ctx.st
    st.dirs = z3.Store(st.dirs, ANCHOR_DIR[A_OBJ_TMP], TRUE)
    name = T.fresh_tmp(st.fs, z3.IntVal(T.K_TMP_OBJ))
    loc = T.loc(T.K_TMP_OBJ, name)
    content = consume(it, stream)
    fsput(it, loc, T.Data(content))
    hd = VDict([[TRUE, a, VStr(T.Hd(a.term, content))] for a in algs.items])
    return VTuple([hd, VPath(A_OBJ_TMP, (("str", name),), pathobj=False),
                   VInt(z3.Length(content))])


# ---------------------------------------------------------------------------------------------------
# validation verdict
# ---------------------------------------------------------------------------------------------------
def digest_lookup(it, hd, key):
    """(found, value) of key in a digest dictionary with concrete skeleton."""
    found = z3.Or(FALSE, *[z3.And(g, k.term == key) for g, k, v in hd.entries])
    val = T.EMPTY
    for g, k, v in reversed(hd.entries):
        val = z3.If(z3.And(g, k.term == key), v.term, val)
    return found, val


def verdict(it, self, cs, ca, hd, content, n, size, on_demand_ok=True):
    """Returns None (valid) or the mismatch class, per C06: size equals the true byte count and
    the checksum equals, as case-insensitive hex, the true digest under the named algorithm."""
    size_none = dyn_is_none(size)
    sz = size.i if isinstance(size, VDyn) else (size.term if isinstance(size, VInt) else None)
    if sz is not None and it.ctx.branch(z3.And(z3.Not(size_none), sz != n)):
        return "NonMatchingObjSize"
    cs_str, cs_t = dyn_str(cs)
    ca_str, ca_t = dyn_str(ca)
    if it.ctx.branch(z3.And(cs_str, ca_str)):
        found, val = digest_lookup(it, hd, ca_t)
        if not it.ctx.branch(found):
            clean_of(it, VStr(ca_t))            # UnsupportedAlgorithm when not accepted
            val = T.Hd(canon(ca_t), content)
        if it.ctx.branch(T.lower(cs_t) != val):
            return "NonMatchingChecksum"
    return None


def _voi_case(pid_none):
    def f(it):
        s = make_self(it)
        content = z3.String("content")
        alg = s.f["algorithm"].term
        cid = T.Hd(alg, content)
        ca = _algo_arg(it, "checksum_algorithm")
        cs = opt_str(it, "checksum")
        it.ctx.assume(z3.Implies(cs.tag == T_STR, T.wsfree(cs.s)))
        size = dyn(it, "file_size_to_validate", (T_NONE, T_INT))
        it.ctx.assume(z3.Implies(size.tag == T_INT, size.i >= 1))
        add = _algo_arg(it, "additional")
        if pid_none:
            algs = _refine_algorithm_list(it, s, NONE, NONE)
            pid = NONE
            tmp = NONE
            it.ctx.assume(fsget(it, obj_loc(cid)) == T.Data(content))
        else:
            algs = _refine_algorithm_list(it, s, add, ca)
            pid = sym_str("pid")
            name = z3.String("tmpname")
            tl = T.loc(T.K_TMP_OBJ, name)
            it.ctx.assume(fsget(it, tl) == T.Data(content))
            tmp = VPath(A_OBJ_TMP, (("str", name),), pathobj=False)
        hd = VDict([[TRUE, a, VStr(T.Hd(a.term, content))] for a in algs.items])
        return [s, pid, cs, ca, VStr("objects"), hd, tmp, VInt(z3.Length(content)), size]
    return f


@contract("FileHashStore._verify_object_information",
          cases={"store path (pid)": _voi_case(False), "stored object (no pid)": _voi_case(True)},
          props={"*": ("C06", "C19")})
def _verify_object_information(it, self, pid, checksum, checksum_algorithm, entity, hex_digests,
                               tmp_file_name, tmp_file_size, file_size_to_validate):
    alg = self.f["algorithm"].term
    if isinstance(pid, VNone):
        found, c = digest_lookup(it, hex_digests, alg)
        content = T.as_text(fsget(it, obj_loc(c)))
    else:
        content = T.as_text(fsget(it, loc_of(it, tmp_file_name)))
    v = verdict(it, self, checksum, checksum_algorithm, hex_digests, content, tmp_file_size.term,
                file_size_to_validate)
    if v is not None:
        if not isinstance(pid, VNone):
            fsput(it, loc_of(it, tmp_file_name), T.Absent)
        raise_(v)
    return NONE


# ---------------------------------------------------------------------------------------------------
# moving into place
# ---------------------------------------------------------------------------------------------------
def _validation_args(it):
    add = _algo_arg(it, "additional_algorithm")
    cs = opt_str(it, "checksum")
    ca = _algo_arg(it, "checksum_algorithm")
    it.ctx.assume((cs.tag == T_NONE) == (ca.tag == T_NONE))
    it.ctx.assume(z3.Implies(cs.tag == T_STR, T.wsfree(cs.s)))
    size = dyn(it, "file_size_to_validate", (T_NONE, T_INT))
    it.ctx.assume(z3.Implies(size.tag == T_INT, size.i >= 1))
    return add, cs, ca, size


def _move_cases():
    out = {}
    for k in DATA_OK:
        def with_pid(it, k=k):
            s = make_self(it)
            pid = sym_str("pid")
            it.ctx.assume(T.wsfree(pid.term))
            return [s, pid, _stream_obj(it, k)] + list(_validation_args(it))

        def no_pid(it, k=k):
            return [make_self(it), NONE, _stream_obj(it, k), NONE, NONE, NONE, NONE]
        out[k + ",pid"] = with_pid
        out[k + ",no pid"] = no_pid
    return out


def store_bytes(it, self, pid, stream, add, cs, ca, size):
    """delta of putting the stream's bytes into the object area, with validation."""
    alg = self.f["algorithm"].term
    r = _write_to_tmp(it, self, stream, add, ca)
    hd, tmp, n = r.items
    tl = loc_of(it, tmp)
    content = T.as_text(fsget(it, tl))
    c = T.Hd(alg, content)
    fsput(it, tl, T.Absent)            # the temporary file never survives the call
    v = verdict(it, self, cs, ca, hd, content, n.term, size)
    if v is not None:
        raise_(v)
    ol = obj_loc(c)
    if it.ctx.branch(T.is_Absent(fsget(it, ol))):
        fsput(it, ol, T.Data(content))
        it.ctx.st.dirs = z3.Store(it.ctx.st.dirs, it.lib.parent_dir_of_loc(ol), TRUE)
    return VTuple([VStr(c), n, hd])


@contract("FileHashStore._move_and_get_checksums", cases=_move_cases(),
          props={"*": ("C01", "C04", "C05", "C06", "C09")})
def _move_and_get_checksums(it, self, pid, stream, additional_algorithm=NONE, checksum=NONE,
                            checksum_algorithm=NONE, file_size_to_validate=NONE):
    return store_bytes(it, self, pid, stream, additional_algorithm, checksum, checksum_algorithm,
                       file_size_to_validate)
