"""Contracts of the argument checkers and algorithm-name handling (C02, C06, C17)."""
import z3
from vc import sorts as T
from vc.values import *  # noqa
from vc.lib import TRUE, FALSE
from .common import *  # noqa


def pysquash(n):
    return n.lower().replace("-", "").replace("_", "")


def squash(s):
    """Independent spelling spec: two spellings name the same algorithm iff their squashed forms
    (lower-case, '-' and '_' removed) coincide."""
    return T.rm_us(T.rm_dash(T.lower(s)))


assert len({pysquash(n) for n in T.SUPPORTED12}) == 12


# ---------------------------------------------------------------------------------------------
def data_cases():
    """The kinds of `data` / `metadata` argument (C01: path string, Path, open binary file at
    any offset, in-memory buffered stream) plus the rejected kinds."""
    def k_str(it):
        return sym_str("data")

    def k_none(it):
        return NONE

    def k_path(it):
        return VPath(A_EXT, (("str", z3.String("datapath")),), pathobj=True)

    def k_file(it):
        name = z3.String("streamname")
        loc = T.loc(T.K_EXT, name)
        st = z3.Select(it.ctx.st.fs, loc)
        it.ctx.assume(T.is_Data(st))
        pos = z3.Int("stream_pos0")
        it.ctx.assume(z3.And(pos >= 0, pos <= z3.Length(T.f_data(st))))
        return VObj("file", loc=loc, mode="r", binary=True, pos=pos, closed=False,
                    namev=VPath(A_EXT, (("str", name),), pathobj=False), kind="user")

    def k_bytesio(it):
        content = z3.String("buffer_content")
        pos = z3.Int("stream_pos0")
        it.ctx.assume(z3.And(pos >= 0, pos <= z3.Length(content)))
        return VObj("file", loc=None, content=content, mode="r", binary=True, pos=pos,
                    closed=False, noname=True, namev=NONE, kind="user")

    def k_other(it):
        return dyn(it, "data", (T_OTHER,))

    return {"str": k_str, "None": k_none, "Path": k_path, "file": k_file, "BytesIO": k_bytesio,
            "other-type": k_other}


DATA_OK = ("str", "Path", "file", "BytesIO")


# ---------------------------------------------------------------------------------------------
@contract("FileHashStore._check_string",
          cases={"any": lambda it: [opt_str(it, "string"), sym_str("arg")]},
          props={"*": ("C17", "C18")})
def _check_string(it, string, arg):
    isstr, s = dyn_str(string)
    if it.ctx.branch(z3.Or(z3.Not(isstr), z3.Not(T.wsfree(s)))):
        raise_("ValueError")
    return NONE


@contract("FileHashStore._check_integer",
          cases={"any": lambda it: [dyn(it, "file_size", (T_NONE, T_INT, T_STR, T_OTHER))]},
          props={"*": ("C17", "C06")})
def _check_integer(it, file_size):
    if isinstance(file_size, VNone):
        return NONE
    if isinstance(file_size, VInt):
        if it.ctx.branch(file_size.term < 1):
            raise_("ValueError")
        return NONE
    if not isinstance(file_size, VDyn):
        raise_("TypeError")
    k = it.ctx.choose([file_size.tag == T_NONE, file_size.tag == T_INT,
                       z3.And(file_size.tag != T_NONE, file_size.tag != T_INT)])
    if k == 0:
        return NONE
    if k == 2:
        raise_("TypeError")
    if it.ctx.branch(file_size.i < 1):
        raise_("ValueError")
    return NONE


@contract("FileHashStore._check_arg_data",
          cases={k: (lambda f: (lambda it: [f(it)]))(f) for k, f in data_cases().items()},
          props={"*": ("C17", "C01")})
def _check_arg_data(it, data):
    if isinstance(data, (VStr, VDyn)):
        isstr, s = dyn_str(data)
        if it.ctx.branch(z3.Or(z3.Not(isstr), T.allws(s))):
            raise_("TypeError")
        return VBool(True)
    if isinstance(data, VPath) and data.pathobj:
        return VBool(True)
    if isinstance(data, VObj) and data.cls == "file" and data.f["binary"]:
        return VBool(True)
    raise_("TypeError")


@contract("FileHashStore._check_arg_format_id",
          cases={"any": lambda it: [make_self(it), opt_str(it, "format_id"), sym_str("method")]},
          props={"*": ("C17", "C11")})
def _check_arg_format_id(it, self, format_id, method):
    isstr, s = dyn_str(format_id)
    if it.ctx.branch(z3.Not(isstr)):
        return self.f["sysmeta_ns"]
    if it.ctx.branch(z3.And(s != T.EMPTY, T.allws(s))):
        raise_("ValueError")
    return VStr(s)


accepted = z3.Function("accepted_spelling", T.S, T.B)
T.trusted("accepted_spelling", "ghost predicate: the set of algorithm spellings the code accepts "
          "(defined by _clean_algorithm returning normally); the contract constrains what an "
          "accepted spelling may denote, the acceptance table constrains what must be accepted")


def _link_accepted(it, bound, out_b):
    isstr, s = dyn_str(bound["algorithm_string"])
    it.ctx.assume(accepted(s) == z3.BoolVal(out_b[0] == "return"))


def acceptance_table():
    """Spellings that C02 names explicitly and that therefore must be accepted: the canonical
    names, their upper-case forms, '-' for '_' and back at the documented position, and the five
    DataONE names.  spelling -> canonical name"""
    tab = {}
    for n in T.SUPPORTED12:
        tab[n] = n
        tab[n.upper()] = n
        if "_" in n:
            tab[n.replace("_", "-")] = n
            tab[n.upper().replace("_", "-")] = n
    for d, n in zip(["MD5", "SHA-1", "SHA-256", "SHA-384", "SHA-512"], T.DEFAULT5):
        tab[d] = n
        tab[d.lower()] = n
        tab[d.replace("-", "_")] = n
    return tab


def _accept_cases():
    cases = {"str": lambda it: [make_self(it), sym_str("algorithm_string")]}
    for sp in acceptance_table():
        cases["accepts:" + sp] = (lambda sp: lambda it: [make_self(it), VStr(sp)])(sp)
    return cases


def _must_accept(it, case_name, out_b):
    if case_name.startswith("accepts:"):
        sp = case_name[8:]
        want = acceptance_table()[sp]
        if out_b[0] == "return" and isinstance(out_b[1], VStr):
            it.ctx.oblige("FileHashStore._clean_algorithm/acceptance-table",
                          out_b[1].term == z3.StringVal(want), detail=sp, props=("C02", "C06"))
        else:
            it.ctx.fail("FileHashStore._clean_algorithm/acceptance-table",
                        f"spelling {sp!r} must be accepted as {want!r}; got "
                        f"{out_b[0]} {out_b[1] if out_b[0] == 'return' else out_b[1].cls}",
                        props=("C02", "C06"))


@contract("FileHashStore._clean_algorithm", cases=_accept_cases(),
          props={"*": ("C02", "C06", "C17")}, ghost_link=_link_accepted, post_hook=_must_accept)
def _clean_algorithm(it, self, algorithm_string):
    isstr, s = dyn_str(algorithm_string)
    if it.ctx.branch(z3.Not(isstr)):
        raise Undecided("_clean_algorithm on a non-string")
    # lemma (the `accepts:*` cases of this contract): the canonical names are accepted
    it.ctx.assume(z3.Implies(z3.Or(*[s == z3.StringVal(n) for n in T.SUPPORTED12]), accepted(s)))
    sq = squash(s)
    match = z3.Or(*[sq == z3.StringVal(pysquash(n)) for n in T.SUPPORTED12])
    if it.ctx.branch(z3.Not(z3.And(accepted(s), match))):
        raise_("UnsupportedAlgorithm")
    return VStr(canon(s))


def canon(s):
    """The canonical (hashlib) name denoted by a spelling: the supported name with the same
    squashed form."""
    sq = squash(s)
    r = z3.StringVal(T.SUPPORTED12[-1])
    for n in reversed(T.SUPPORTED12[:-1]):
        r = z3.If(sq == z3.StringVal(pysquash(n)), z3.StringVal(n), r)
    return r


def clean_of(it, v):
    """Helper for other contracts: the canonical name of an accepted spelling (or raises)."""
    return _clean_algorithm(it, None, v)
