"""Native half of the engine cross-check: run with /venv/bin/python."""
import json
import logging
import shutil
import sys
import tempfile

logging.disable(logging.CRITICAL)
import os  # noqa: E402
if os.environ.get("HASHSTORE_SRC"):      # experiments on a changed copy: same tree as the engine reads
    sys.path.insert(0, os.path.dirname(os.path.abspath(os.environ["HASHSTORE_SRC"])))
from hashstore.filehashstore import FileHashStore  # noqa: E402

keys = json.loads(sys.stdin.read())
out = {}
stores = {}
root = tempfile.mkdtemp(prefix="hsx_")
try:
    for key in keys:
        fn, depth, width, algo, args = json.loads(key)
        cfg = (depth, width, algo)
        if cfg not in stores:
            stores[cfg] = FileHashStore({"store_path": f"{root}/s{len(stores)}", "store_depth": depth,
                                         "store_width": width, "store_algorithm": algo,
                                         "store_metadata_namespace": "ns-x"})
        try:
            r = getattr(stores[cfg], fn)(*args)
            if isinstance(r, tuple):
                r = list(r)
            elif isinstance(r, (set, frozenset)):
                r = ["set"] + sorted(r)
            elif isinstance(r, os.PathLike):
                r = os.path.relpath(os.fspath(r), stores[cfg].root)
            out[key] = ["return", r]
        except BaseException as e:  # noqa
            out[key] = ["raise", type(e).__name__]
finally:
    shutil.rmtree(root, ignore_errors=True)
print(json.dumps(out))
