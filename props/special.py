"""Special jobs: decision procedures that are not symbolic executions of a body."""


def run(eng, lib, name, tier="quick"):
    if name == "homcheck":
        from vc import homcheck
        return homcheck.run(eng, tier)
    if name == "shard":
        from props import shard
        return shard.run(eng, lib, tier)
    if name == "crosscheck":
        from props import crosscheck
        return crosscheck.run(eng, lib, tier)
    if name == "client":
        from props import client
        return client.run(eng, lib, tier)
    raise RuntimeError(f"unknown special job {name}")
