"""Which obligations decide which property.

For every property: the functions whose body-vs-contract refinement it depends on (with the clause
kinds that matter to it), the lemmas over the contracts, and special jobs.  An obligation counts for
a property when its job is listed and its name matches one of the property's selectors.
"""
import os
import re

F = "FileHashStore."
FUNCTIONAL = r"post/(outcome|result|fs|arg\d+)"
ANY = r".*"

# helper groups -----------------------------------------------------------------------------------
CHECKERS = [F + "_check_string", F + "_check_integer", F + "_check_arg_data",
            F + "_check_arg_format_id", F + "_check_arg_algorithms_and_checksum",
            F + "_clean_algorithm"]
PATHS = [F + "_build_hashstore_data_object_path", F + "_get_hashstore_pid_refs_path",
         F + "_get_hashstore_cid_refs_path"]
REF_HELPERS = [F + "_write_refs_file", F + "_update_refs_file", F + "_is_string_in_refs_file",
               F + "_verify_hashstore_references", F + "_read_small_file_content",
               F + "_rename_path_for_deletion", F + "_delete_marked_files", F + "_mktmpfile",
               F + "_create_path"]
SYNC = [F + "_synchronize_object_locked_pids", F + "_release_object_locked_pids",
        F + "_synchronize_object_locked_cids", F + "_release_object_locked_cids",
        F + "_synchronize_referenced_locked_pids", F + "_release_reference_locked_pids",
        F + "_check_object_locked_cids", F + "_check_reference_locked_pids"]
STREAM = ["Stream.__init__", "Stream.close"]
OBJ_CORE = [F + "_write_to_tmp_file_and_get_hex_digests", F + "_verify_object_information",
            F + "_move_and_get_checksums", F + "_store_and_validate_data", F + "_store_data_only"]
PUBLIC_OBJ = [F + "store_object", F + "tag_object", F + "delete_object",
              F + "delete_if_invalid_object", F + "retrieve_object", F + "get_hex_digest"]
PUBLIC_META = [F + "store_metadata", F + "retrieve_metadata", F + "delete_metadata"]
META_CORE = [F + "_mktmpmetadata", F + "_put_metadata"]
REFS_CORE = [F + "_store_hashstore_refs_files", F + "_find_object", F + "_delete_object_only",
             F + "_untag_object", F + "_mark_pid_refs_file_for_deletion",
             F + "_remove_pid_and_handle_cid_refs_deletion", F + "_validate_and_check_cid_lock",
             F + "_delete", F + "_exists", F + "_get_hashstore_data_object_path"]
EVERYTHING = (CHECKERS + PATHS + REF_HELPERS + SYNC + STREAM + OBJ_CORE + PUBLIC_OBJ + PUBLIC_META
              + META_CORE + REFS_CORE + [F + "_computehash", F + "_refine_algorithm_list"])


def fns(names, clause=FUNCTIONAL):
    return [(n, clause) for n in names]


PROPS = {
    "C01": {
        "fns": fns(STREAM + [F + "_check_arg_data", F + "_mktmpfile", F + "_find_object"])
        + fns([f for f in OBJ_CORE if "_verify_object_information" not in f],
              FUNCTIONAL + r"|loop-fold/.*|call:.*")
        + fns([F + "store_object", F + "retrieve_object"]) + fns(PATHS)
        # "whatever calls are made on other pids": the calls that edit shared reference files
        + fns([F + "delete_object", F + "tag_object", F + "_store_hashstore_refs_files",
               F + "_update_refs_file", F + "_is_string_in_refs_file", F + "_delete_object_only",
               F + "delete_if_invalid_object"], r"post/(outcome|result|fs)"),
        "extra": [r"stream/.*"],
        "lemmas": ["C01/store-then-retrieve"] + ["frame/" + o for o in (
            "store_object", "tag_object", "delete_object", "delete_if_invalid_object",
            "store_metadata", "delete_metadata")],
        "lemma_select": [r"lemma/C01/.*", r"lemma/frame/.*/(binding-kept|object-bytes-kept)"],
    },
    "C02": {
        "fns": fns([F + "_clean_algorithm"], ANY) + fns([F + "_refine_algorithm_list"],
                                                        r"post/(outcome|result|frame-self)")
        + fns([F + "_computehash", F + "get_hex_digest",
               F + "_check_arg_algorithms_and_checksum"])
        + fns([F + "_write_to_tmp_file_and_get_hex_digests"], r"post/result|loop-fold/.*")
        + fns([F + "_move_and_get_checksums", F + "_store_and_validate_data",
               F + "_store_data_only"], r"post/result")
        + fns([F + "store_object"], r"post/(result|frame-self)"),
        "lemmas": ["C01/store-then-retrieve"],
        "lemma_select": [r"lemma/C02/.*"],
        "special": ["homcheck", "crosscheck"],
    },
    "C03": {
        "fns": fns([F + "_check_string", F + "_store_hashstore_refs_files", F + "tag_object",
                    F + "store_object", F + "_find_object"])
        + fns([F + "delete_object"], r"post/fs") + fns(REF_HELPERS),
        "lemmas": ["C03/store_object-on-bound-pid", "C03/tag_object-on-bound-pid",
                   "C03/rebind-after-delete", "inv/delete_object"],
        "lemma_select": [r"lemma/C03/.*", r"lemma/delete_object/pid-unbound-afterwards"],
    },
    "C04": {
        "fns": fns([F + "delete_object", F + "_delete_object_only", F + "delete_if_invalid_object",
                    F + "_move_and_get_checksums", F + "_update_refs_file",
                    F + "_rename_path_for_deletion", F + "_delete_marked_files",
                    F + "store_object", F + "store_metadata", F + "delete_metadata"],
                   r"post/fs")
        # "still referenced" is read from the reference files: the functions that keep them
        # exact are part of the cone (their lemmas are C05's invariant)
        + fns([F + "_is_string_in_refs_file", F + "_find_object", F + "_store_hashstore_refs_files",
               F + "tag_object", F + "_write_refs_file", F + "_verify_hashstore_references",
               F + "_read_small_file_content"])
        # the roll-back helpers remove reference files: a reference list that disappears while a pid
        # still names the object leaves the object unprotected
        + fns([F + "_untag_object", F + "_remove_pid_and_handle_cid_refs_deletion",
               F + "_mark_pid_refs_file_for_deletion", F + "_validate_and_check_cid_lock"],
              r"post/(outcome|fs)")
        # which file a cid names: object path and reference-list path must be derived from the cid
        # in the same way, or the "still referenced" guard looks at another cid's list
        + fns(PATHS, r"post/(outcome|result)"),
        "lemmas": ["inv/store_object", "inv/tag_object", "inv/delete_object",
                   "inv/delete_if_invalid_object", "inv/store_metadata", "inv/delete_metadata",
                   "frame/delete_object", "frame/delete_if_invalid_object"],
        "lemma_select": [r"lemma/.*/(referenced-objects-kept|objects-untouched|"
                         r"object-removed-iff-last-reference|only-that-object-may-go|"
                         r"objects-and-references-untouched|object-bytes-kept)"],
    },
    "C05": {
        "fns": fns(PUBLIC_OBJ + PUBLIC_META + REFS_CORE + META_CORE
                   + [f for f in OBJ_CORE if "_verify_object_information" not in f],
                   r"post/(outcome|fs)|loop-foreach/.*") + fns(REF_HELPERS),
        "extra": [r"refs/line-is-wsfree"],
        "lemmas": ["inv/store_object", "inv/tag_object", "inv/delete_object",
                   "inv/delete_if_invalid_object", "inv/store_metadata", "inv/delete_metadata",
                   "inv/retrieve_metadata", "inv/fresh-store"],
        "lemma_select": [r"lemma/.*/(inv-pair|inv-loc)", r"lemma/delete_object/.*",
                         r"lemma/fresh-store/.*"],
    },
    "C06": {
        "fns": fns([F + "_check_integer", F + "_check_arg_algorithms_and_checksum",
                    F + "_clean_algorithm", F + "_verify_object_information",
                    F + "_move_and_get_checksums", F + "_store_and_validate_data",
                    F + "store_object", F + "delete_if_invalid_object", F + "_delete_object_only"],
                   r"post/(outcome|fs)|acceptance-table|call:.*"),
        "lemmas": ["inv/delete_if_invalid_object"],
        "lemma_select": [r"lemma/delete_if_invalid_object/.*"],
    },
    "C07": {
        "fns": fns(SYNC, r"post/locks|call:.*") + fns([F + "store_object", F + "tag_object",
                                                    F + "delete_object", F + "_delete_object_only",
                                                    F + "_store_hashstore_refs_files",
                                                    F + "delete_if_invalid_object"],
                                                   r"post/locks|call:.*/pre:.*(held|order).*"),
        "extra": [r"sync/.*::class (objpid|refpid|cid)", r"sync/(release-only-own|self-deadlock|"
                  r"monitor-reentered|wait-inside-with)"],
        "steps": True,
        "scenario_select": [r"steps/(store_object|tag_object|delete_object|delete_if_invalid).*/(W-.*|2P-.*)",
                            r"fs/directories-are-never-removed"],
        "derived": "locks-object",
    },
    "C08": {
        "fns": fns(SYNC + PUBLIC_OBJ + PUBLIC_META + REFS_CORE,
                   r"post/locks|call:.*/pre:(not-already-held|cid-not-already-held|lock-order|"
                   r"releases-held-identifier|pid-not-already-held|own-.*|no-lock-held-by-caller)"
                   r"|loop-foreach/locks-restored"),
        "extra": [r"sync/(self-deadlock|monitor-reentered|wait-inside-with|release-only-own)"],
        "lemmas": ["inv/store_object", "inv/tag_object", "inv/delete_object",
                   "inv/delete_if_invalid_object", "inv/store_metadata", "inv/delete_metadata"],
        "lemma_select": [r"lemma/.*/locks-empty"],
        "fault": True,
        "scenario_select": [r"fault\[.*\]/.*/F1-.*"],
    },
    "C09": {
        "fns": fns([F + "_write_refs_file", F + "_mktmpfile", F + "_mktmpmetadata",
                    F + "_put_metadata", F + "_write_to_tmp_file_and_get_hex_digests",
                    F + "_rename_path_for_deletion"], r"post/(outcome|fs)"),
        "steps": True,
        "extra": [r"fs/temporary-files-only-in-tmp-areas"],
        "scenario_select": [r"steps/.*/(S\d-.*|completes-normally)",
                            r"fs/temporary-files-only-in-tmp-areas"],
    },
    "C10": {
        "fns": fns([F + "_update_refs_file", F + "_rename_path_for_deletion",
                    F + "_delete_marked_files"], r"post/(outcome|fs)"),
        "steps": True,
        "scenario_select": [r"steps/.*/(K1-.*|S1-.*|completes-normally)"],
        "lemmas": ["inv/delete_object", "C03/rebind-after-delete", "C10/recover-after-crash"],
        "lemma_select": [r"lemma/C10/.*", r"lemma/C03/rebind-after-delete/.*",
                         r"lemma/delete_object/failure-only-for-bad-or-unknown-pid"],
    },
    "C13": {
        "fns": fns([F + "_untag_object", F + "_mark_pid_refs_file_for_deletion",
                    F + "_remove_pid_and_handle_cid_refs_deletion",
                    F + "_validate_and_check_cid_lock"], r"post/(outcome|fs|arg\d+|locks)"),
        "fault": True,
        "scenario_select": [r"fault\[.*\]/.*/(X\d-.*|F1-.*|pre:.*)"],
        "lemmas": ["C13/unbound-pid-can-be-stored-at-once"],
        "lemma_select": [r"lemma/C13/.*"],
    },
    "C11": {
        "fns": fns([F + "_check_arg_format_id", F + "_computehash"]) + fns(META_CORE)
        + fns(PUBLIC_META, FUNCTIONAL + r"|loop-foreach/.*") + fns([F + "delete_object"], r"post/fs")
        + fns(STREAM),
        "lemmas": ["C11/store-then-retrieve", "C11/delete",
                   "C11/delete_object-removes-all-documents", "frame/store_metadata",
                   "frame/delete_metadata", "frame/store_object", "frame/delete_object"],
        "lemma_select": [r"lemma/C11/.*", r"lemma/frame/.*/metadata-kept"],
    },
    "C12": {
        "fns": fns(PUBLIC_META, r"post/locks|C-check-then-act/.*|loop-foreach/locks-restored"),
        "extra": [r"sync/acquired-identifier-is-free::class doc",
                  r"sync/release-only-own", r"fs/directories-are-never-removed",
                  r"fs/temporary-files-only-in-tmp-areas"],
        "lemmas": [],
        "steps": True,
        "scenario_select": [r"steps/(store_metadata|delete_metadata).*/(W-.*|2P-.*|R1-.*)",
                            r".*/C-check-then-act/.*", r"fs/directories-are-never-removed",
                            r"fs/temporary-files-only-in-tmp-areas"],
        "derived": "locks-metadata",
    },
    "C14": {
        "fns": fns([F + "__init__", F + "_validate_properties", F + "_verify_hashstore_properties",
                    F + "_load_properties", F + "_write_properties", F + "_set_default_algorithms",
                    F + "_create_path"], r"post/(?!frame-self).*|call:.*"),
        "extra": [r"yaml/.*"],
        "lemmas": ["C14/accept-iff-equal-configuration"],
        "lemma_select": [r"lemma/C14/.*"],
    },
    "C15": {
        "fns": fns(PATHS + [F + "_write_refs_file", F + "_update_refs_file", F + "_computehash",
                            F + "_put_metadata", F + "_write_properties", F + "_find_object",
                            F + "store_metadata", F + "_move_and_get_checksums",
                            F + "_store_hashstore_refs_files"],
                   r"post/(outcome|result|fs)|post/yaml-round-trip|call:.*"),
        "extra": [r"path/.*", r"yaml/.*", r"refs/line-is-wsfree"],
        "lemmas": ["C11/store-then-retrieve"],
        "lemma_select": [r"lemma/C11/store/path-is-published-address"],
        "special": ["shard", "crosscheck"],
    },
    "C16": {
        "fns": fns(SYNC, ANY) + fns([F + "store_object", F + "store_metadata",
                                     F + "delete_metadata"], r"post/(outcome|fs|locks)")
        + fns([F + "__init__"], r"post/(outcome|frame-self)"),
        "extra": [r"sync/.*"],
        "lemmas": [],
    },
    "C20": {
        "fns": [],
        "special": ["client"],
        "lemmas": ["C14/accept-iff-equal-configuration"],
        "lemma_select": [r"lemma/C14/accepted-only-with-the-recorded-configuration"],
    },
    "C17": {
        "fns": fns(CHECKERS, ANY) + fns(PUBLIC_OBJ + PUBLIC_META, r"post/(outcome|fs|locks)"),
        "lemmas": ["C17/" + n for n in ("store_object", "tag_object", "delete_object",
                                       "delete_if_invalid_object", "store_metadata",
                                       "delete_metadata", "retrieve_object", "retrieve_metadata",
                                       "get_hex_digest")],
        "lemma_select": [r"lemma/C17/.*"],
        "special": ["crosscheck"],
    },
    "C18": {
        "fns": fns([F + "_check_string"], ANY) + fns(PATHS + [F + "_update_refs_file",
                                                             F + "_is_string_in_refs_file",
                                                             F + "_computehash"])
        + fns(PUBLIC_OBJ + PUBLIC_META + META_CORE + REFS_CORE, r"post/fs"),
        "extra": [r"path/.*", r"refs/line-is-wsfree"],
        "lemmas": ["frame/" + o for o in ("store_object", "tag_object", "delete_object",
                                          "delete_if_invalid_object", "store_metadata",
                                          "delete_metadata")]
        + ["C11/store-then-retrieve", "C11/delete", "C11/delete_object-removes-all-documents"],
        "lemma_select": [r"lemma/frame/.*", r"lemma/C11/.*/(other-pairs-untouched|"
                         r"other-documents-kept|other-pids-documents-kept)"],
    },
    "C19": {
        "fns": fns([F + "store_object", F + "delete_if_invalid_object", F + "tag_object",
                    F + "_verify_object_information", F + "_store_data_only",
                    F + "_delete_object_only", F + "_move_and_get_checksums",
                    F + "_store_and_validate_data", F + "_store_hashstore_refs_files"],
                   r"post/(outcome|result|fs)"),
        "lemmas": ["C19/one-call-vs-steps"],
        "lemma_select": [r"lemma/C19/.*"],
    },
}


QUICK_FAULT = ["tag_object: pid already bound to the requested cid",
               "tag_object: pid bound to another cid", "tag_object: first pid of the cid", "tag_object: additional pid of the cid",
               "delete_object: sole reference", "delete_object: shared object",
               "delete_object: references without the data object",
               "store_metadata: new document", "store_metadata: overwrite",
               "delete_metadata: one format", "delete_metadata: all documents",
               "store_object: duplicate content, additional pid"]


# start states added for the listed properties' clauses only (quick tier)
FAULT_ONLY_FOR = {"delete_object: references without the data object": {"C08", "C13"}}

# heavy jobs are split into 2**bits shards (each follows one side of the first `bits` forks)
SHARD_BITS = {
    ("fn", F + "store_object"): (3, 5),
    ("lemma", "C17/store_object"): 3, ("lemma", "frame/store_object"): 2,
    ("lemma", "C01/store-then-retrieve"): 2, ("lemma", "C19/one-call-vs-steps"): 2,
    ("lemma", "inv/store_object"): 2, ("lemma", "C03/store_object-on-bound-pid"): 2,
    ("lemma", "frame/delete_if_invalid_object"): 1,
    ("steps", "store_object: new content"): 2,
    ("steps", "store_object: content present unreferenced"): 2,
    ("steps", "store_object: duplicate content, additional pid"): 1,
    ("fault", "store_object: new content"): 3,
    ("fault", "store_object: content present unreferenced"): 3,
    ("fault", "store_object: duplicate content, additional pid"): 2,
    ("fault", "tag_object: first pid of the cid"): 2,
    ("fault", "tag_object: additional pid of the cid"): 1,
}


def shard(jobs):
    out = []
    for j in jobs:
        bits = SHARD_BITS.get((j[0], j[1]), 0)
        if j[0] == "fn" and j[2] in ("None", "other-type"):
            bits = 0
        if bits:
            if isinstance(bits, tuple):
                bits, skip = bits
            else:
                skip = 0
            out += [tuple(j) + (("shard", i, bits, skip),) for i in range(2 ** bits)]
        else:
            out.append(tuple(j))
    return out


def jobs_for(prop, all_fn_jobs, tier="quick"):
    return shard(_jobs_for(prop, all_fn_jobs, tier))


# Data kinds: the public calls hand `data` on to _check_arg_data and Stream (whose contracts are
# proved for all six kinds in their own jobs) and never look at it themselves.  The quick tier
# therefore runs the big callers for one path-like and one file-like accepted kind plus the two
# rejected kinds; the thorough tier runs all six.
QUICK_KINDS = {"str", "BytesIO", "None", "other-type"}
KIND_SENSITIVE = {F + "store_object", F + "store_metadata", F + "_store_and_validate_data",
                  F + "_store_data_only", F + "_put_metadata"}


def _jobs_for(prop, all_fn_jobs, tier="quick"):
    spec = PROPS[prop]
    wanted = {n for n, _ in spec.get("fns", [])}
    out = [j for j in all_fn_jobs if j[1] in wanted
           and not (tier == "quick" and j[1] in KIND_SENSITIVE and j[2] not in QUICK_KINDS)]
    out += [("lemma", l) for l in spec.get("lemmas", [])]
    out += [("special", s, tier) for s in spec.get("special", [])]
    if spec.get("steps"):
        from props import scenarios
        out += [("steps", n) for n, (_, _, pr) in scenarios.SCENARIOS.items()
                if "C09" in pr or "C10" in pr or "C07" in pr]
    if spec.get("fault"):
        from props import scenarios
        names = list(scenarios.SCENARIOS) if tier == "thorough" else QUICK_FAULT
        if not os.environ.get("VERIF_FAULT_ALL_STATES"):      # experiments only
            names = [n for n in names if n not in FAULT_ONLY_FOR or prop in FAULT_ONLY_FOR[n]]
        # the heaviest jobs first so that the pool finishes sooner
        names = sorted(names, key=lambda n: (not n.startswith("store_object"), n))
        out = [("fault", n, m) for n in names for m in ("persistent", "one-off")] + out
    return out


def selects(prop, ob):
    """Does obligation `ob` (dict) count for property `prop`?"""
    spec = PROPS[prop]
    name = ob["name"]
    job = ob["job"]
    if name.startswith("memo/"):
        # a memoised function that reads mutable state: counts for every property whose cone runs it
        return job[0] != "fn" or job[1] in {f for f, _ in spec.get("fns", [])}
    if job[0] == "fn":
        for fn, clause in spec.get("fns", []):
            if job[1] == fn:
                if name.startswith(fn + "/") and re.fullmatch(clause, name[len(fn) + 1:]):
                    return True
        for pat in spec.get("extra", []):
            key = name + "::" + (ob.get("detail") or "")
            if re.match(pat, key) and job[1] in {f for f, _ in spec.get("fns", [])}:
                return True
        return False
    if job[0] == "lemma":
        return any(re.fullmatch(p, name) for p in spec.get("lemma_select", []))
    if job[0] == "special":
        return True
    if job[0] in ("steps", "fault"):
        return any(re.fullmatch(p, name) for p in spec.get("scenario_select", []))
    return False
