"""C15: the real _shard body against the published layout (README: 'depth' tokens of 'width'
characters followed by the remainder), for every string, depth and width.

The comprehension element and the remainder expression are taken from the current AST and
evaluated by the engine for a symbolic index; the obligations are the induction steps of
   concat(tokens) == checksum     and     token i == checksum[i*width : (i+1)*width].
"""
import ast
import z3
from vc import sorts as T
from vc.values import *  # noqa
from vc.engine import PathCtx, Obligation
from vc.interp import Interp, Env
from contracts.common import make_self

Q = "FileHashStore._shard"


def run(eng, lib, tier="quick"):
    eng.current = Q + "[layout]"
    node = eng.funcs.get(Q)
    if node is None:
        raise Undecided("_shard not found")
    # locate: <var> = compact(<ListComp over range(depth)> + [<tail>]) ; return <var>
    comp = tail = None
    compact_ok = False
    for n in ast.walk(node):
        if isinstance(n, ast.BinOp) and isinstance(n.op, ast.Add) and \
                isinstance(n.left, ast.ListComp) and isinstance(n.right, ast.List) and \
                len(n.right.elts) == 1:
            comp, tail = n.left, n.right.elts[0]
        if isinstance(n, ast.FunctionDef) and n.name == "compact":
            r = [x for x in n.body if isinstance(x, ast.Return)]
            if len(r) == 1 and isinstance(r[0].value, ast.ListComp):
                lc = r[0].value
                g = lc.generators[0]
                if (isinstance(lc.elt, ast.Name) and isinstance(g.target, ast.Name)
                        and lc.elt.id == g.target.id and len(g.ifs) == 1
                        and isinstance(g.ifs[0], ast.Name) and g.ifs[0].id == g.target.id):
                    compact_ok = True
    if comp is None or not compact_ok:
        raise Undecided("_shard no longer has the shape compact([tokens...] + [remainder])")
    gen = comp.generators[0]
    if not (len(comp.generators) == 1 and not gen.ifs and isinstance(gen.target, ast.Name)
            and isinstance(gen.iter, ast.Call) and isinstance(gen.iter.func, ast.Name)
            and gen.iter.func.id == "range" and len(gen.iter.args) == 1):
        raise Undecided("_shard's comprehension is not over range(<depth>)")
    ctx = PathCtx(eng, [])
    it = Interp(eng, ctx, lib)
    it.top = Q
    self = make_self(it)
    s = z3.String("checksum")
    n = z3.Length(s)
    env = Env()
    env.vars.update(self=self, checksum=VStr(s))
    ctx.pure += 1          # the pieces must evaluate without case splits
    count = lib.as_int(it, it.eval(gen.iter.args[0], env)).term
    k = z3.Int("k")
    env.vars[gen.target.id] = VInt(k)
    d, w = self.f["depth"].term, self.f["width"].term
    ctx.assume(z3.And(k >= 0, k < count))
    tok = it.eval(comp.elt, env).term
    rest = it.eval(tail, env).term
    ctx.pure -= 1

    def mn(a):
        return z3.If(a > n, n, a)
    kw = k * w
    P = ("C15", "C18")
    ctx.oblige(Q + "/layout/number-of-tokens-is-depth", count == d, props=P)
    ctx.oblige(Q + "/layout/token-i-is-checksum[i*width:(i+1)*width]",
               tok == z3.SubString(s, mn(kw), mn(kw + w) - mn(kw)), props=P)
    ctx.oblige(Q + "/layout/remainder-is-checksum[depth*width:]",
               rest == z3.SubString(s, mn(d * w), n - mn(d * w)), props=P)
    # induction step of  concat(tokens[:k]) == checksum[:min(k*width, len)]
    # (stated for an arbitrary offset a >= 0 in place of k*width: the token was just shown to be
    # checksum[min(a,len) : min(a+width,len)] for a = k*width, and the step is linear in a)
    a = z3.Int("a")
    sub = z3.SubString
    for label, pre, goal in (
            ("offset-beyond-the-end", a >= n,
             z3.Concat(sub(s, 0, n), sub(s, n, 0)) == sub(s, 0, n)),
            ("token-inside", a + w <= n,
             z3.Concat(sub(s, 0, a), sub(s, a, w)) == sub(s, 0, a + w)),
            ("token-cut-by-the-end", z3.And(a < n, a + w > n),
             z3.Concat(sub(s, 0, a), sub(s, a, n - a)) == sub(s, 0, n))):
        ctx2 = PathCtx(eng, [])      # clean context: only a >= 0, width >= 1 and the case
        ctx2.assume(z3.And(a >= 0, w >= 1, pre))
        ctx2.oblige(Q + "/layout/concat-step/" + label, goal, props=P)
    ctx.oblige(Q + "/layout/concat-final",
               z3.Concat(z3.SubString(s, 0, mn(d * w)), rest) == s, props=P)
    # for a digest longer than depth*width nothing is dropped by compact and the tokens have
    # exactly `width` characters: the result is depth tokens + a non-empty remainder
    ctx.assume(n > d * w)
    # k < depth, so (k+1)*width <= depth*width < len
    ctx.assume(kw + w <= d * w)     # monotonicity of multiplication by width >= 1 (k+1 <= depth)
    ctx.oblige(Q + "/layout/tokens-have-width-characters", z3.Length(tok) == w, props=P)
    ctx.oblige(Q + "/layout/remainder-non-empty", z3.Length(rest) >= 1, props=P)
    return []
