"""Cross-check of the engine (interpreter + library models + string axioms) against CPython.

The real bodies of the pure leaf functions are executed (a) by the engine on concrete inputs and
(b) natively by /venv/bin/python on the working tree; outcome class and value must agree.  A
disagreement means the *checker* is wrong (exit 3), not the repository.
"""
import json
import os
import subprocess
import z3
from vc import sorts as T
from vc.values import *  # noqa
from vc.engine import PathCtx, PyRaise, Obligation, PathPruned
from vc.interp import Interp
from contracts.common import make_self

ROOT = os.path.dirname(os.path.dirname(os.path.abspath(__file__)))
F = "FileHashStore."
CASES = {
    "_check_string": [[None, "a"], ["", "a"], [" ", "a"], ["a b", "a"], ["abc", "a"], ["a\tb", "a"],
                      [" x", "a"], ["ab\n", "a"], ["日本", "a"], ["x y", "a"],
                      ["doi:10.5063/F1", "a"], ["a\u00a0b", "a"], ["a\u2003b", "a"], ["\x1c", "a"],
                      ["a\x85b", "a"], ["../x", "a"], ["a/b", "a"]],
    "_check_integer": [[None], [0], [1], [-5], [10], ["3"], [True], [2 ** 70]],
    "_clean_algorithm": [[x] for x in ["sha256", "SHA-256", "sha3_256", "SHA3-256", "sha-3-256",
                                       "md-5", "blake2b", "Blake2B", "sha_256", "sha3256", "",
                                       "sha1", "SHA_1", "SHA--1", "sha512-", "SHA3_512", "md2",
                                       "shaı256", "ẞhA256", "SHA 256", "sha-224", "SHA3-224",
                                       "shake_128", "Sha_3_256", "blake2s", "sha512_256"]],
    "_check_arg_format_id": [[None, "m"], ["", "m"], [" ", "m"], ["x", "m"], [" x ", "m"]],
    "_shard": [[x] for x in ["abcdef", "0d555ed77052d7e166017f779cbc193357c3a5006ee8b8457230bcf7abcef65e",
                             "ab", "", "abcdefghij"]],
    "_check_arg_algorithms_and_checksum": [[None, None, None], ["sha224", None, None],
                                           [None, "abc", None], [None, None, "md5"],
                                           ["sha256", "abc", "SHA-1"], ["md2", None, None],
                                           [None, "a b", "md5"]],
    "_refine_algorithm_list": [[None, None], ["sha224", None], [None, "sha3_256"], ["md5", "md5"],
                               ["sha224", "blake2b"], ["SHA-224", None], ["md2", None],
                               [None, "sha256"], ["blake2s", "sha224"]],
}
CONFIGS = [(3, 2, "SHA-256"), (1, 1, "MD5"), (2, 5, "SHA-384"), (5, 4, "SHA-512")]
ALG = {"MD5": "md5", "SHA-1": "sha1", "SHA-256": "sha256", "SHA-384": "sha384", "SHA-512": "sha512"}


def to_v(x):
    if x is None:
        return NONE
    if isinstance(x, bool):
        return VBool(x)
    if isinstance(x, int):
        return VInt(x)
    return VStr(x)


def concretize(ctx, v):
    """Python value of an engine value under the (concrete) path condition."""
    if isinstance(v, VNone):
        return None
    if isinstance(v, VBool):
        return _eval(ctx, v.term)
    if isinstance(v, (VStr, VInt)):
        return _eval(ctx, v.term)
    if isinstance(v, VDyn):
        t = _eval(ctx, v.tag)
        return {T_NONE: None, T_STR: _eval(ctx, v.s), T_INT: _eval(ctx, v.i)}.get(t, "<other>")
    if isinstance(v, VList):
        items = [concretize(ctx, x) for g, x in zip(v.guards, v.items) if _eval(ctx, g)]
        if v.kind in ("set", "frozenset"):      # unordered: compared as the sorted set of members
            if len(set(items)) != len(items):
                return ["<set with a duplicate>"] + items
            return ["set"] + sorted(items)
        return items
    if isinstance(v, VTuple):
        return [concretize(ctx, x) for x in v.items]
    return repr(v)


def _eval(ctx, term):
    s = z3.Solver()
    s.set("timeout", 20000)
    for a in ctx.ax.visit(term):
        ctx.facts.append(a)
    s.add(ctx.facts)
    if s.check() != z3.sat:
        raise Undecided("cross-check: path condition not satisfiable")
    v = s.model().eval(term, model_completion=True)
    # the value must be determined: no other value is consistent
    s.add(term != v)
    if s.check() != z3.unsat:
        raise Undecided(f"cross-check: engine value of {term} is not determined")
    if z3.is_string_value(v):
        return T.zstr(v)
    if z3.is_int_value(v):
        return v.as_long()
    if z3.is_true(v) or z3.is_false(v):
        return z3.is_true(v)
    return str(v)


def run(eng, lib, tier="quick"):
    eng.current = "crosscheck"
    engine_res = {}
    for (depth, width, algo) in CONFIGS:
        for fn, inputs in CASES.items():
            if fn != "_shard" and (depth, width) != (3, 2):
                continue
            for args in inputs:
                key = json.dumps([fn, depth, width, algo, args])
                ctx = PathCtx(eng, [])
                it = Interp(eng, ctx, lib)
                it.top = F + fn
                it.force_inline = set(eng.contracts)      # real bodies only, no contracts
                self = make_self(it)
                self.f["depth"], self.f["width"] = VInt(depth), VInt(width)
                self.f["algorithm"], self.f["sysmeta_ns"] = VStr(ALG[algo]), VStr("ns-x")
                node = eng.funcs[F + fn]
                static = any(getattr(d, "id", None) == "staticmethod" for d in node.decorator_list)
                vargs = [to_v(a) for a in args]
                try:
                    r = it.run_body(F + fn, vargs if static else [self] + vargs, {})
                    engine_res[key] = ["return", concretize(ctx, r)]
                except PyRaise as pr:
                    engine_res[key] = ["raise", pr.exc.cls]
                if eng.pending:
                    eng.pending.clear()
                    raise Undecided(f"cross-check: the engine forked on concrete input {key}")
    p = subprocess.run(["/venv/bin/python", os.path.join(ROOT, "props", "crosscheck_native.py")],
                       input=json.dumps(list(engine_res)), capture_output=True, text=True, timeout=300)
    if p.returncode != 0:
        raise RuntimeError("native side of the cross-check failed: " + p.stderr[-500:])
    native = json.loads(p.stdout)
    bad = []
    for key, er in engine_res.items():
        nr = native[key]
        ok = er == nr
        eng.record(Obligation("crosscheck/" + json.loads(key)[0], "discharged" if ok else "refuted",
                              0.0, f"{key}: engine {er} native {nr}", backend="cpython"))
        if not ok:
            bad.append(f"{key}: engine {er}, CPython {nr}")
    if bad:
        raise RuntimeError("ENGINE DISAGREES WITH CPYTHON (checker defect): " + "; ".join(bad[:5]))
    return []
