"""Whole-call scenarios with every repository function inlined (no call-by-contract), used where a
property speaks about the *primitives* a call executes:

  steps  - C09 / C10: a step invariant is asserted after every file-system primitive
  fault  - C13 / C08: one I/O failure is injected at each fault site in turn (one-off / persistent)

The arguments are valid (rejections are C17's business) and the entry state is an Inv-state of one
of the starting classes the properties name.
"""
import z3
from vc import sorts as T
from vc.values import *  # noqa
from vc.engine import PyRaise, PathPruned, LOCK_CLASSES, Obligation
from vc.interp import Interp
from vc.lib import TRUE, FALSE
from contracts.common import *  # noqa
from contracts import checkers, leaf, refs, objects, meta
from contracts.leaf import H, obj_loc, pidref_loc, cidref_loc, meta_loc
from props.lemmas import World, P_of, C_of, O_of, M_of, inv_loc

F = "FileHashStore."
SCENARIOS = {}


def scenario(name, fn, props):
    def deco(f):
        SCENARIOS[name] = (f, fn, props)
        return f
    return deco


class Sc:
    """What a scenario hands to the runner."""

    def __init__(self, w, args, pid=None, cid=None, fmt=None, content=None, kind="object"):
        # the threading flavour; that the multiprocessing flavour is the same code up to the
        # names of the lock attributes is C16's obligation
        w.it.ctx.assume(z3.Not(w.self.f["use_multiprocessing"].term))
        # os.stat only sizes the read buffer (both outcomes are covered by Stream.__init__'s
        # own contract); here it succeeds
        w.it.ctx.stat_always_ok = True
        self.w, self.args, self.pid, self.cid, self.fmt, self.content = w, args, pid, cid, fmt, content
        self.kind = kind
        self.spec = None


def path_data(it, name="datapath"):
    """A path-string data argument naming an existing external file."""
    s = z3.String(name)
    loc = T.loc(T.K_EXT, s)
    st = z3.Select(it.ctx.st.fs, loc)
    it.ctx.assume(T.is_Data(st))
    it.ctx.assume(z3.Not(T.ishex(s)))
    it.ctx.assume(z3.Not(T.allws(s)))
    return VStr(s), T.f_data(st)


def _store(state):
    def f(it):
        w = World(it)
        ctx = it.ctx
        pid = sym_str("pid")
        p = pid.term
        ctx.assume(T.wsfree(p))
        data, content = path_data(it)
        alg = w.self.f["algorithm"].term
        c = T.Hd(alg, content)
        w.add_pid(p)
        w.add_cid(c)
        ctx.assume(T.is_Absent(P_of(w.fs0, w.self, p)))
        if state == "new content":
            ctx.assume(z3.And(T.is_Absent(O_of(w.fs0, c)), T.is_Absent(C_of(w.fs0, c))))
        elif state == "duplicate content, additional pid":
            ctx.assume(z3.And(T.present(O_of(w.fs0, c)), T.present(C_of(w.fs0, c))))
        elif state == "content present unreferenced":
            ctx.assume(z3.And(T.present(O_of(w.fs0, c)), T.is_Absent(C_of(w.fs0, c))))
        sc = Sc(w, [w.self, pid, data, NONE, NONE, NONE, NONE], pid=p, cid=c, content=content)
        sc.spec = objects.store_object
        return sc
    return f


for _st in ("new content", "duplicate content, additional pid", "content present unreferenced"):
    scenario("store_object: " + _st, F + "store_object", ("C09", "C10", "C13", "C08"))(_store(_st))


def _tag(state):
    def f(it):
        w = World(it)
        ctx = it.ctx
        pid, cid = sym_str("pid"), sym_str("cid")
        p, c = pid.term, cid.term
        ctx.assume(z3.And(T.wsfree(p), T.ishex(c)))
        w.add_pid(p)
        w.add_cid(c)
        ctx.assume(T.is_Absent(P_of(w.fs0, w.self, p)))
        if state == "first pid of the cid":
            ctx.assume(T.is_Absent(C_of(w.fs0, c)))
        else:
            ctx.assume(T.present(C_of(w.fs0, c)))
        sc = Sc(w, [w.self, pid, cid], pid=p, cid=c)
        sc.spec = refs.tag_object
        return sc
    return f


def _tag_bound(same):
    def f(it):
        """The pid is already bound (to the requested cid / to another one): the call is
        rejected; if a fault strikes first, the earlier binding must stay intact (C13)."""
        w = World(it)
        ctx = it.ctx
        pid, cid = sym_str("pid"), sym_str("cid")
        p, c = pid.term, cid.term
        ctx.assume(z3.And(T.wsfree(p), T.ishex(c)))
        w.add_pid(p)
        w.add_cid(c)
        ctx.assume(T.present(P_of(w.fs0, w.self, p)))
        old = T.as_text(P_of(w.fs0, w.self, p))
        ctx.assume(old == c if same else old != c)
        sc = Sc(w, [w.self, pid, cid], pid=p, cid=c)
        sc.spec = refs.tag_object
        return sc
    return f


scenario("tag_object: pid already bound to the requested cid", F + "tag_object",
         ("C13", "C08"))(_tag_bound(True))
scenario("tag_object: pid bound to another cid", F + "tag_object", ("C13", "C08"))(_tag_bound(False))

for _st in ("first pid of the cid", "additional pid of the cid"):
    scenario("tag_object: " + _st, F + "tag_object", ("C09", "C10", "C13", "C08"))(_tag(_st))


def _delete(state):
    def f(it):
        w = World(it)
        ctx = it.ctx
        pid = sym_str("pid")
        p = pid.term
        ctx.assume(T.wsfree(p))
        w.add_pid(p)
        ctx.assume(T.present(P_of(w.fs0, w.self, p)))
        c = T.as_text(P_of(w.fs0, w.self, p))
        w.add_cid(c)
        ctx.assume(T.present(O_of(w.fs0, c)))
        m = T.as_lines(C_of(w.fs0, c))
        sole = z3.Store(m, p, 0) == T.NOLINES
        ctx.assume(sole if state == "sole reference" else z3.Not(sole))
        sc = Sc(w, [w.self, pid], pid=p, cid=c)
        sc.spec = objects.delete_object
        return sc
    return f


def _delete_orphan(it):
    """pid reference without a cid list (what an interrupted tag_object leaves)."""
    w = World(it)
    ctx = it.ctx
    pid = sym_str("pid")
    p = pid.term
    ctx.assume(T.wsfree(p))
    st = P_of(w.fs0, w.self, p)
    ctx.assume(z3.And(T.is_Data(st), T.ishex(T.f_data(st))))
    c = T.as_text(st)
    w.add_cid(c)
    ctx.assume(T.is_Absent(C_of(w.fs0, c)))
    sc = Sc(w, [w.self, pid], pid=p, cid=c)
    sc.spec = objects.delete_object
    return sc


scenario("delete_object: orphan pid reference", F + "delete_object",
         ("C07", "C10", "C13"))(_delete_orphan)


def _delete_no_object(it):
    """pid reference and cid list are there, the data object is not (tag_object on a cid whose
    object was never stored, or a deletion interrupted after the object went)."""
    w = World(it)
    ctx = it.ctx
    pid = sym_str("pid")
    p = pid.term
    ctx.assume(T.wsfree(p))
    w.add_pid(p)
    ctx.assume(T.present(P_of(w.fs0, w.self, p)))
    c = T.as_text(P_of(w.fs0, w.self, p))
    w.add_cid(c)
    ctx.assume(T.is_Absent(O_of(w.fs0, c)))
    ctx.assume(T.present(C_of(w.fs0, c)))
    m = T.as_lines(C_of(w.fs0, c))
    ctx.assume(z3.Select(m, p) >= 1)
    sc = Sc(w, [w.self, pid], pid=p, cid=c)
    sc.spec = objects.delete_object
    return sc


scenario("delete_object: references without the data object", F + "delete_object",
         ("C08", "C13"))(_delete_no_object)

for _st in ("sole reference", "shared object"):
    scenario("delete_object: " + _st, F + "delete_object", ("C09", "C10", "C13", "C08"))(_delete(_st))


def _dii(it):
    """delete_if_invalid_object with a wrong size on an object stored without a pid."""
    w = World(it)
    ctx = it.ctx
    om = objects.stored_object_metadata(it, w.self)
    c = om.f["cid"].term
    w.add_cid(c)
    ctx.assume(T.is_Absent(C_of(w.fs0, c)))
    size = VInt(z3.Int("wrong_size"))
    ctx.assume(z3.And(size.term >= 1, size.term != om.f["obj_size"].term))
    cs = sym_str("checksum")
    ctx.assume(T.wsfree(cs.term))
    sc = Sc(w, [w.self, om, cs, VStr("sha256"), size], pid=z3.StringVal("<no pid>"), cid=c)
    sc.spec = objects.delete_if_invalid_object
    sc.expect_raise = True
    return sc


scenario("delete_if_invalid_object: unreferenced object, wrong size",
         F + "delete_if_invalid_object", ("C07",))(_dii)


def _smeta(state):
    def f(it):
        w = World(it)
        ctx = it.ctx
        pid, fmt = sym_str("pid"), sym_str("format_id")
        p, fm = pid.term, fmt.term
        ctx.assume(z3.And(T.wsfree(p), z3.Not(T.allws(fm))))
        data, content = path_data(it)
        w.add_pid(p)
        ml = meta_loc(w.self, p, fm)
        if state == "new document":
            ctx.assume(T.is_Absent(z3.Select(w.fs0, ml)))
        else:
            ctx.assume(T.present(z3.Select(w.fs0, ml)))
        sc = Sc(w, [w.self, pid, data, fmt], pid=p, fmt=fm, content=content, kind="metadata")
        sc.spec = meta.store_metadata
        return sc
    return f


for _st in ("new document", "overwrite"):
    scenario("store_metadata: " + _st, F + "store_metadata", ("C09", "C10", "C13", "C08"))(_smeta(_st))


def _dmeta(state):
    def f(it):
        w = World(it)
        ctx = it.ctx
        pid = sym_str("pid")
        p = pid.term
        ctx.assume(T.wsfree(p))
        w.add_pid(p)
        if state == "one format":
            fmt = sym_str("format_id")
            ctx.assume(z3.Not(T.allws(fmt.term)))
            ctx.assume(T.present(z3.Select(w.fs0, meta_loc(w.self, p, fmt.term))))
            args = [w.self, pid, fmt]
            fm = fmt.term
        else:
            args = [w.self, pid, NONE]
            fm = None
        sc = Sc(w, args, pid=p, fmt=fm, kind="metadata")
        sc.spec = meta.delete_metadata
        return sc
    return f


for _st in ("one format", "all documents"):
    scenario("delete_metadata: " + _st, F + "delete_metadata", ("C09", "C10", "C13", "C08"))(_dmeta(_st))


# ---------------------------------------------------------------------------------------------------
# predicates of the properties
# ---------------------------------------------------------------------------------------------------
def frame_others(sc, fs_now):
    """C10-K1 / C13-X4: everything that belongs to another pid is exactly as at entry.
    Quantified over locations; the interrupted call's own footprint is exempt."""
    w = sc.w
    p = sc.pid
    own_pid = pidref_loc(w.self, p)
    d = H(w.self, p)

    def fact(x):
        k = T.l_kind(x)
        mine = z3.Or(x == own_pid, z3.And(k == T.K_META, T.l_k1(x) == d))
        if sc.cid is not None:
            # the cid's list is shared: other pids' lines are checked separately (lines_kept)
            m0 = T.as_lines(C_of(w.fs0, sc.cid))
            unshared = z3.Or(T.is_Absent(C_of(w.fs0, sc.cid)),
                             z3.Store(m0, p, z3.IntVal(0)) == T.NOLINES)
            mine = z3.Or(mine, x == cidref_loc(sc.cid),
                         z3.And(x == obj_loc(sc.cid),
                                z3.Or(T.is_Absent(z3.Select(w.fs0, x)), unshared)))
        permanent = z3.And(z3.Or(k == T.K_OBJ, k == T.K_PIDREF, k == T.K_CIDREF, k == T.K_META),
                           T.l_marks(x) == 0)
        return z3.Implies(z3.And(permanent, z3.Not(mine)),
                          z3.Select(fs_now, x) == z3.Select(w.fs0, x))
    return fact


def lines_kept(sc, fs_now):
    """Other pids keep their line in the shared cid list (for an arbitrary other pid q)."""
    w = sc.w
    if sc.cid is None:
        return z3.BoolVal(True)
    q = z3.String("other_pid_q")
    before = z3.Select(T.as_lines(C_of(w.fs0, sc.cid)), q)
    now_st = C_of(fs_now, sc.cid)
    return z3.Implies(z3.And(q != sc.pid, T.present(C_of(w.fs0, sc.cid)), before > 0),
                      z3.And(T.present(now_st), z3.Select(T.as_lines(now_st), q) > 0))


def shared_object_kept(sc, fs_now):
    """An object that other pids reference stays (C10 'including pids that share the object')."""
    w = sc.w
    if sc.cid is None:
        return z3.BoolVal(True)
    q = z3.String("other_pid_q")
    shared = z3.And(q != sc.pid, T.present(C_of(w.fs0, sc.cid)),
                    z3.Select(T.as_lines(C_of(w.fs0, sc.cid)), q) > 0,
                    T.present(O_of(w.fs0, sc.cid)))
    return z3.Implies(shared, O_of(fs_now, sc.cid) == O_of(w.fs0, sc.cid))


def typing_now(sc, fs_now):
    """C09 S1-S3 as a state predicate: permanent files are complete and of their type."""
    w = sc.w
    alg = w.self.f["algorithm"].term

    def fact(x):
        st = z3.Select(fs_now, x)
        k = T.l_kind(x)
        unmarked = T.l_marks(x) == 0
        return z3.And(
            z3.Implies(z3.And(k == T.K_OBJ, unmarked, T.present(st)),
                       z3.And(T.is_Data(st), T.Hd(alg, T.f_data(st)) == T.l_k1(x))),
            z3.Implies(z3.And(k == T.K_PIDREF, unmarked, T.present(st)),
                       z3.And(T.is_Data(st), T.ishex(T.f_data(st)))))
    return fact


# ---------------------------------------------------------------------------------------------------
# runners
# ---------------------------------------------------------------------------------------------------
KEEP_CONTRACT = {
    # no file-system primitive inside: nothing for a step monitor or a fault to see
    F + "_shard", F + "_clean_algorithm", F + "_check_string", F + "_check_integer",
    F + "_check_arg_data", F + "_check_arg_format_id", F + "_check_arg_algorithms_and_checksum",
    F + "_build_hashstore_data_object_path", F + "_get_hashstore_pid_refs_path",
    F + "_get_hashstore_cid_refs_path", F + "_refine_algorithm_list", F + "_computehash",
    F + "_synchronize_object_locked_pids", F + "_release_object_locked_pids",
    F + "_synchronize_object_locked_cids", F + "_release_object_locked_cids",
    F + "_synchronize_referenced_locked_pids", F + "_release_reference_locked_pids",
    F + "_check_object_locked_cids", F + "_check_reference_locked_pids",
    # removes only deletion-marker files (its list may hold a symbolic part after a directory
    # loop); a failure inside it is swallowed by the code and leaves residue only
    F + "_delete_marked_files",
}


def _inline_everything(it, eng):
    it.force_inline = set(eng.contracts) - KEEP_CONTRACT


def run_steps(eng, lib, name):
    """C09 / C10: step invariants after every primitive of the fully inlined call."""
    build, fn, props = SCENARIOS[name]

    def job(ctx):
        it = Interp(eng, ctx, lib)
        it.top = fn
        _inline_everything(it, eng)
        sc = build(it)
        w = sc.w
        ctx.callstack.append(fn)
        tag = f"steps/{name}"
        ctx.scenario_tag = tag
        # I4 for every object at entry (typing_now must hold initially as well)
        ctx.assume_forall_loc(typing_now(sc, w.fs0))
        state = {"n": 0, "removed": []}

        def monitor(c, ev):
            if ev["kind"] == "remove" and fn == F + "store_metadata" and not c.spec_mode:
                # recorded on replayed prefixes too: `state` is per path execution
                state["removed"].append(z3.And(T.l_kind(ev["loc"]) == T.K_META,
                                               T.l_marks(ev["loc"]) == 0))
            if c.replaying() or c.spec_mode:
                return
            kind = ev["kind"]
            if kind in ("open-w", "open-a", "open-r+", "write", "truncate"):
                loc = ev["loc"]
                k = T.l_kind(loc)
                perm = z3.And(z3.Or(k == T.K_OBJ, k == T.K_PIDREF, k == T.K_META),
                              T.l_marks(loc) == 0)
                c.oblige(f"{tag}/S4-no-in-place-write-to-permanent-file", z3.Not(perm),
                         detail=f"{kind}", props=("C09",))
            if kind == "move":
                dst = ev["dst"]
                k = T.l_kind(dst)
                perm = z3.And(z3.Or(k == T.K_OBJ, k == T.K_PIDREF, k == T.K_META),
                              T.l_marks(dst) == 0)
                sk = T.l_kind(ev["src"])
                from_tmp = z3.Or(sk == T.K_TMP_OBJ, sk == T.K_TMP_META, sk == T.K_TMP_REFS)
                c.oblige(f"{tag}/S4-permanent-file-appears-by-rename-of-a-closed-temp-file",
                         z3.Implies(perm, z3.And(from_tmp, z3.BoolVal(not ev["src_open"]))),
                         props=("C09",))
                content = ev["content"]
                if sc.kind == "metadata":
                    c.oblige(f"{tag}/S2-metadata-document-is-a-complete-supplied-version",
                             z3.Implies(z3.And(k == T.K_META, T.l_marks(dst) == 0),
                                        content == T.Data(sc.content) if sc.content is not None
                                        else z3.BoolVal(False)), props=("C09",))
                if sc.cid is not None:
                    c.oblige(f"{tag}/S3-pid-reference-holds-one-complete-cid",
                             z3.Implies(z3.And(k == T.K_PIDREF, T.l_marks(dst) == 0),
                                        content == T.Data(sc.cid)), props=("C09",))
            if kind == "move" and fn == F + "store_metadata":
                # C12: retrieve_metadata takes no lock, so a reader concurrent with an overwrite
                # gets a version only because the document is *replaced* by the one rename and is
                # never absent in between (store(v2) || retrieve has no sequential order that
                # yields not-found when v1 was there).  Stated at the move into place, so the
                # obligation exists on every completing path: no earlier primitive of this call
                # removed an unmarked metadata document.
                dst = ev["dst"]
                c.oblige(f"{tag}/R1-overwritten-document-is-replaced-never-removed",
                         z3.Implies(z3.And(T.l_kind(dst) == T.K_META, T.l_marks(dst) == 0),
                                    z3.Not(z3.Or([z3.BoolVal(False)] + state["removed"]))),
                         props=("C12",))
            if kind in ("move", "remove", "write", "truncate", "open-w", "open-a", "mktemp"):
                state["n"] += 1
                target = ev.get("dst", ev.get("loc"))
                tk = z3.simplify(T.l_kind(target))
                if kind != "move" and z3.is_int_value(tk) and tk.as_long() in (
                        T.K_TMP_OBJ, T.K_TMP_META, T.K_TMP_REFS):
                    return      # a step on a temporary file cannot affect a permanent location
                fs_now = c.st.fs
                c.oblige_forall_loc(f"{tag}/S1-permanent-files-complete-at-every-step",
                                    typing_now(sc, fs_now), props=("C09", "C10"))
                c.oblige_forall_loc(f"{tag}/K1-other-pids-untouched-at-every-step",
                                    frame_others(sc, fs_now), props=("C10",))
                c.oblige(f"{tag}/K1-other-pids-keep-their-line-at-every-step",
                         lines_kept(sc, fs_now), props=("C10",))
                c.oblige(f"{tag}/K1-shared-object-kept-at-every-step",
                         shared_object_kept(sc, fs_now), props=("C10",))
        reads = []      # (location, locks held) of reads/probes of guarded locations

        def lock_monitor(c, ev):
            """C07 / C12 lock discipline on the primitives of the call (threading flavour)."""
            if c.replaying() or c.spec_mode:
                return
            kind = ev["kind"]
            held = ev["held"]
            classes = sorted({cl for cl, _ in held})
            target = ev.get("dst", ev.get("loc"))
            if target is None or kind in ("close", "seek", "lock-test", "acquire", "release",
                                          "monitor-enter", "monitor-exit", "notify", "wait",
                                          "waited", "probe-dir", "makedirs", "listdir", "fault"):
                if kind == "release":
                    # 2P: remember that this lock is gone for the locations read under it
                    for r in reads:
                        if any(cl == ev["lockcls"] for cl, _ in r[1]) and \
                                not any(cl == ev["lockcls"] for cl, _ in held):
                            r[2].append(ev["lockcls"])
                return
            targets = [target]
            if kind == "move":
                targets.append(ev["src"])       # a rename writes both ends
            for tg in targets:
                check_access(c, ev, kind, tg, held, classes)

        def check_access(c, ev, kind, target, held, classes):
            k = z3.simplify(T.l_kind(target))
            if not z3.is_int_value(k):
                return
            kk = k.as_long()
            marks = z3.simplify(T.l_marks(target))
            if kk not in (T.K_OBJ, T.K_PIDREF, T.K_CIDREF, T.K_META) or not z3.is_int_value(marks) \
                    or marks.as_long() != 0:
                return
            kname = T.KIND_NAMES[kk]
            if kind in ("probe", "open-r"):
                reads.append((target, list(held), []))
                c.engine.record(Obligation(f"lockset/{name}/read {kname}", "info", 0.0,
                                           ",".join(classes), site=fn))
                return
            if kind not in ("move", "remove", "write", "truncate", "open-w", "open-a", "open-r+"):
                return
            c.engine.record(Obligation(f"lockset/{name}/write {kname}", "info", 0.0,
                                       ",".join(classes), site=fn))
            key = T.l_k1(target)
            if kk in (T.K_OBJ, T.K_CIDREF):
                guard = z3.Or(False, *[kv == key for cl, kv in held if cl == "cid"])
                what = "cid lock of that very cid"
            elif kk == T.K_PIDREF:
                guard = z3.Or(False, *[H(w.self, kv) == key for cl, kv in held
                                       if cl in ("refpid", "objpid")])
                what = "a pid lock of that very pid"
            else:
                guard = z3.Or(False, *[kv == T.l_k2(target) for cl, kv in held if cl == "doc"])
                what = "document lock of that very document"
            c.oblige(f"{tag}/W-{kname}-written-under-{'its-cid-lock' if kk in (T.K_OBJ, T.K_CIDREF) else 'its-pid-lock' if kk == T.K_PIDREF else 'its-document-lock'}",
                     guard, detail=f"{kind} of {kname} holding {classes or 'nothing'}; needs the {what}",
                     props=("C07", "C12"))
            # 2P: no write to a location that was read under a lock released in between
            for loc_r, held_r, released in reads:
                if released and z3.is_true(z3.simplify(loc_r == target)):
                    c.fail(f"{tag}/2P-no-write-after-releasing-the-lock-it-was-read-under",
                           f"{kname} read under {sorted({cl for cl, _ in held_r})}, "
                           f"{released} released, then {kind}", props=("C07", "C12"))
        ctx.monitors = [monitor, lock_monitor]
        try:
            it.run_body(fn, sc.args, {})
            out = "return"
        except PyRaise as pr:
            out = "raise " + pr.exc.cls + (pr.exc.f.get("_origin") or "")
        if getattr(sc, "expect_raise", False):
            ctx.oblige(f"{tag}/ends-with-the-mismatch-error",
                       z3.BoolVal(out.startswith("raise NonMatching")), detail=out, props=("C07",))
        else:
            ctx.oblige(f"{tag}/completes-normally", z3.BoolVal(out == "return"), detail=out,
                       props=("C09", "C10"))
        return {"function": fn, "case": name, "outcome": out, "events": state["n"]}
    return eng.explore(job, f"steps:{name}")


def run_fault(eng, lib, name, persist):
    """C13 / C08: one injected I/O failure at each fault site of the fully inlined call."""
    build, fn, props = SCENARIOS[name]
    mode = "persistent" if persist else "one-off"

    def job(ctx):
        it = Interp(eng, ctx, lib)
        it.top = fn
        _inline_everything(it, eng)
        sc = build(it)
        w = sc.w
        ctx.callstack.append(fn)
        tag = f"fault[{mode}]/{name}"
        ctx.scenario_tag = tag
        ctx.fault_mode = {"budget": 1, "persist": persist, "persistent": set(), "injected": []}
        memo = {}
        from vc.contract import clone
        args0 = [clone(a, memo) for a in sc.args]
        st0 = ctx.st.copy()
        try:
            it.run_body(fn, sc.args, {})
            out = ("return", None)
        except PyRaise as pr:
            out = ("raise", pr.exc.cls)
        fm = ctx.fault_mode
        ctx.fault_mode = None
        site = ", ".join(f"{p}@{t}" for p, t in fm["injected"]) or "no fault"
        fs_now = ctx.st.fs
        # C08-F1: nothing stays locked, whatever happened
        ctx.oblige(f"{tag}/F1-nothing-left-locked",
                   z3.And(*[ctx.st.own[c] == T.NOLOCKS for c in LOCK_CLASSES]),
                   detail=f"{out[0]} {out[1] or ''} after {site}", props=("C08", "C13"))
        # X4: every other pid's data is untouched
        ctx.oblige_forall_loc(f"{tag}/X4-other-pids-untouched", frame_others(sc, fs_now),
                              detail=site, props=("C13",))
        ctx.oblige(f"{tag}/X4-other-pids-keep-their-line", lines_kept(sc, fs_now), detail=site,
                   props=("C13",))
        ctx.oblige(f"{tag}/X4-shared-object-kept", shared_object_kept(sc, fs_now), detail=site,
                   props=("C13",))
        if out[0] == "return":
            # X1: success is only reported when the whole effect on (O, P, C, M) was achieved
            st_b = ctx.st
            ctx.st = st0
            ctx.spec_mode += 1
            try:
                try:
                    sc.spec(it, *args0)
                    sout = "return"
                except PyRaise as pr:
                    sout = "raise"
            finally:
                ctx.spec_mode -= 1
            fs_spec = ctx.st.fs
            ctx.st = st_b

            def whole_effect(x):
                k = T.l_kind(x)
                perm = z3.And(z3.Or(k == T.K_OBJ, k == T.K_PIDREF, k == T.K_CIDREF, k == T.K_META),
                              T.l_marks(x) == 0)
                return z3.Implies(perm, z3.Select(fs_now, x) == z3.Select(fs_spec, x))
            ctx.oblige_forall_loc(f"{tag}/X1-success-only-with-the-whole-effect", whole_effect,
                                  detail=site, props=("C13",))
        else:
            p = sc.pid
            if fn.endswith("store_object") or fn.endswith("tag_object"):
                # X2: the pid is unbound and in no list (so it can be stored again at once),
                # or its earlier binding is intact
                Pn, P0 = P_of(fs_now, w.self, p), P_of(w.fs0, w.self, p)
                # a pid that was unbound is unbound again (then store_object(pid) succeeds at
                # once); a pid that was bound keeps exactly its earlier binding
                ctx.oblige(f"{tag}/X2-failed-call-leaves-pid-unbound-or-as-before",
                           z3.If(T.present(P0), Pn == P0, T.is_Absent(Pn)),
                           detail=f"{out[1]} after {site}", props=("C13",))
            if fn.endswith("store_metadata"):
                ml = meta_loc(w.self, p, sc.fmt)
                ctx.oblige(f"{tag}/X3-failed-store-keeps-previous-document",
                           z3.Select(fs_now, ml) == z3.Select(w.fs0, ml),
                           detail=f"{out[1]} after {site}", props=("C13",))
        return {"function": fn, "case": name, "outcome": out[0] if out[0] == "return" else
                "raise " + out[1], "fault": site}
    return eng.explore(job, f"fault[{mode}]:{name}")
