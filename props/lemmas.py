"""Property lemmas over the contracts (the spec transition functions of contracts/*.py).

No body is executed here: these obligations say that the *contracts* imply the property statements
(induction step over one public call).  Together with the refinement obligations (every real body
agrees with its contract) they give the per-call part of each property; the lift to all finite call
sequences is the induction schema stated in DESIGN.md.
"""
import z3
from vc import sorts as T
from vc.values import *  # noqa
from vc.engine import PyRaise, PathPruned
from vc.interp import Interp
from vc.lib import TRUE, FALSE
from contracts.common import *  # noqa
from contracts import checkers, leaf, refs, objects, meta
from contracts.leaf import H, fsget, obj_loc, pidref_loc, cidref_loc, meta_loc

LEMMAS = {}


def lemma(name, props):
    def deco(f):
        LEMMAS[name] = (f, props)
        return f
    return deco


def run(eng, lib, name):
    f, props = LEMMAS[name]

    def job(ctx):
        it = Interp(eng, ctx, lib)
        it.top = "lemma:" + name
        ctx.callstack.append("lemma:" + name)
        f(it)
        return {"function": "lemma:" + name, "outcome": "done"}
    return eng.explore(job, "lemma:" + name)


# ---------------------------------------------------------------------------------------------------
# the abstract view and the invariant
# ---------------------------------------------------------------------------------------------------
def P_of(fs, self, p):
    return z3.Select(fs, pidref_loc(self, p))


def C_of(fs, c):
    return z3.Select(fs, cidref_loc(c))


def O_of(fs, c):
    return z3.Select(fs, obj_loc(c))


def M_of(fs, self, p, f):
    return z3.Select(fs, meta_loc(self, p, f))


def member(fs, c, p):
    return z3.And(T.present(C_of(fs, c)), z3.Select(T.as_lines(C_of(fs, c)), p) > 0)


def inv_pair(fs, self, p, c, gh):
    """Inv instantiated at pid p and cid c (I1, I2, I4-I6 of DESIGN 4.1)."""
    Pp = P_of(fs, self, p)
    cc = T.as_text(Pp)
    alg = self.f["algorithm"].term
    facts = [
        # I1: a bound pid appears exactly once in exactly its cid's list
        z3.Implies(T.present(Pp), z3.And(T.is_Data(Pp), T.ishex(cc), T.present(C_of(fs, cc)),
                                         z3.Select(T.as_lines(C_of(fs, cc)), p) == 1)),
        # I2: lists are non-empty, name only pids bound to that cid, each at most once
        z3.Implies(T.present(C_of(fs, c)),
                   z3.And(T.is_LinesF(C_of(fs, c)), T.as_lines(C_of(fs, c)) != T.NOLINES,
                          z3.Select(T.as_lines(C_of(fs, c)), p) <= 1,
                          z3.Implies(z3.Select(T.as_lines(C_of(fs, c)), p) > 0,
                                     z3.And(T.wsfree(p), Pp == T.Data(c))))),
        # I4: an object's name is the digest of its bytes
        z3.Implies(T.present(O_of(fs, c)),
                   z3.And(T.is_Data(O_of(fs, c)), T.Hd(alg, T.f_data(O_of(fs, c))) == c)),
        # I5: a referenced cid has its object unless it was tagged without ever being stored
        z3.Implies(z3.And(T.present(C_of(fs, c)), z3.Not(z3.Select(gh["T"], c))),
                   T.present(O_of(fs, c))),
        # I6: an unreferenced object exists only if it was stored without a pid / its tagging was
        # rejected, and not deleted since
        z3.Implies(z3.And(T.present(O_of(fs, c)), T.is_Absent(C_of(fs, c))), z3.Select(gh["U"], c)),
    ]
    return z3.And(*facts)


def inv_loc(fs):
    """I3 + typing: no temporary file, no deletion marker; every file has its type."""
    def fact(x):
        st = z3.Select(fs, x)
        k = T.l_kind(x)
        return z3.And(
            z3.Implies(z3.Or(k == T.K_TMP_OBJ, k == T.K_TMP_META, k == T.K_TMP_REFS),
                       T.is_Absent(st)),
            z3.Implies(z3.And(T.l_marks(x) >= 1, k != T.K_EXT), T.is_Absent(st)),
            z3.Implies(k == T.K_PIDREF,
                       z3.Or(T.is_Absent(st), z3.And(T.is_Data(st), T.ishex(T.f_data(st))))),
            z3.Implies(k == T.K_CIDREF, z3.Or(T.is_Absent(st), T.is_LinesF(st))),
            z3.Implies(z3.Or(k == T.K_OBJ, k == T.K_META), z3.Or(T.is_Absent(st), T.is_Data(st))),
            z3.Implies(z3.And(k == T.K_EXT, T.ishex(T.l_k1(x))), T.is_Absent(st)),
        )
    return fact


class World:
    """A symbolic store in an Inv-state plus the ghost history sets."""

    def __init__(self, it, extra_pids=(), extra_cids=()):
        self.it = it
        ctx = it.ctx
        self.self = make_self(it)
        ctx.fs0, ctx.dirs0 = ctx.st.fs, ctx.st.dirs
        self.fs0 = ctx.st.fs
        self.gh0 = {"T": z3.Const("ghost_T", z3.ArraySort(T.S, T.B)),
                    "U": z3.Const("ghost_U", z3.ArraySort(T.S, T.B))}
        ctx.st.ghost = dict(self.gh0)
        ctx.assume_forall_loc(it.lib.typing(ctx.fs0, ctx.dirs0))
        ctx.assume_forall_loc(inv_loc(self.fs0))
        ctx.sequential = True
        for c in LOCK_CLASSES:
            ctx.assume(ctx.st.own[c] == T.NOLOCKS)    # I8: no call in progress holds anything
            ctx.assume(ctx.st.env[c] == T.NOLOCKS)    # sequential statement: no other caller
        self.pids = []
        self.cids = []
        self.p1 = z3.String("any_pid")     # the arbitrary pid / cid at which Inv' is proved
        self.c1 = z3.String("any_cid")
        ctx.assume(T.wsfree(self.p1))
        ctx.assume(T.ishex(self.c1))
        self.add_pid(self.p1)
        self.add_cid(self.c1)
        for p in extra_pids:
            self.add_pid(p)
        for c in extra_cids:
            self.add_cid(c)

    def add_pid(self, p):
        if any(p.eq(q) for q in self.pids):
            return
        self.pids.append(p)
        for c in list(self.cids):
            self.it.ctx.assume(inv_pair(self.fs0, self.self, p, c, self.gh0))
        self.add_cid(T.as_text(P_of(self.fs0, self.self, p)))

    def add_cid(self, c):
        if any(c.eq(d) for d in self.cids):
            return
        self.cids.append(c)
        for p in self.pids:
            self.it.ctx.assume(inv_pair(self.fs0, self.self, p, c, self.gh0))

    def call(self, fn, *args):
        """Run a spec function; returns ('return', value) or ('raise', class name)."""
        it = self.it
        it.ctx.spec_mode += 1
        try:
            try:
                return ("return", fn(it, self.self, *args))
            except PyRaise as pr:
                return ("raise", pr.exc.cls)
        finally:
            it.ctx.spec_mode -= 1

    @property
    def fs(self):
        return self.it.ctx.st.fs

    def prove_inv(self, name, gh, props):
        """Inv holds again, at the arbitrary pid/cid and at an arbitrary location."""
        ctx = self.it.ctx
        ctx.oblige(f"lemma/{name}/inv-pair", inv_pair(self.fs, self.self, self.p1, self.c1, gh),
                   props=props)
        ctx.oblige_forall_loc(f"lemma/{name}/inv-loc", inv_loc(self.fs), props=props)
        ctx.oblige(f"lemma/{name}/locks-empty",
                   z3.And(*[ctx.st.own[c] == T.NOLOCKS for c in LOCK_CLASSES]),
                   props=tuple(set(props) | {"C08"}))


def sym_pid(it, name="pid"):
    return opt_str(it, name)


def pid_terms(v):
    return dyn_str(v)[1]


def ghost_after_store(w, out, pid_v, cid_before_defined=None):
    """History sets after a store_object / tag_object / delete call, as the property words them:
    U gains a cid stored without pid or whose tagging was rejected; T gains a cid tagged without
    object; both lose a cid whose list / object went away."""
    return w.it.ctx.st.ghost


# ---------------------------------------------------------------------------------------------------
# C05 / C04 / C03: one public call preserves Inv and the referenced objects
# ---------------------------------------------------------------------------------------------------
def data_arg(it):
    """An accepted data argument (kind: in-memory buffer; the kinds only matter to Stream)."""
    return checkers.data_cases()["BytesIO"](it)


def content_of_data(it, d):
    return d.f["content"]


def _validation(it):
    return (opt_str(it, "additional_algorithm"), opt_str(it, "checksum"),
            opt_str(it, "checksum_algorithm"),
            dyn(it, "expected_object_size", (T_NONE, T_INT, T_STR, T_OTHER)))


def update_ghost_store(w, pid_v, content, out):
    """U' and T' after store_object."""
    it = w.it
    alg = w.self.f["algorithm"].term
    c = T.Hd(alg, content)
    gh = dict(w.gh0)
    stored = T.present(O_of(w.fs, c))
    newly = z3.And(stored, T.is_Absent(O_of(w.fs0, c)))
    # the object was added and is not referenced: stored without pid or its tagging was rejected
    gh["U"] = z3.If(z3.And(newly, T.is_Absent(C_of(w.fs, c))), z3.Store(gh["U"], c, True), gh["U"])
    # the cid got its object: it is no longer "tagged but never stored"
    gh["T"] = z3.If(stored, z3.Store(gh["T"], c, False), gh["T"])
    return gh


@lemma("inv/store_object", ("C05", "C04", "C03"))
def l_inv_store(it):
    w = World(it)
    pid = sym_pid(it)
    data = data_arg(it)
    add, cs, ca, size = _validation(it)
    p = pid_terms(pid)
    w.add_pid(p)
    content = content_of_data(it, data)
    c = T.Hd(w.self.f["algorithm"].term, content)
    w.add_cid(c)
    it.ctx.assume(z3.Implies(dyn_is_none(pid), z3.And(dyn_is_none(add), dyn_is_none(cs),
                                                      dyn_is_none(ca), dyn_is_none(size))))
    out = w.call(objects.store_object, pid, data, add, cs, ca, size)
    gh = update_ghost_store(w, pid, content, out)
    w.prove_inv("store_object", gh, ("C05",))
    # C04: no object that is still referenced afterwards was removed or altered
    any_c = w.c1
    it.ctx.oblige("lemma/store_object/referenced-objects-kept",
                  z3.Implies(z3.And(T.present(O_of(w.fs0, any_c))),
                             O_of(w.fs, any_c) == O_of(w.fs0, any_c)), props=("C04", "C03"))


@lemma("inv/tag_object", ("C05", "C04", "C03"))
def l_inv_tag(it):
    w = World(it)
    pid, cid = sym_pid(it), opt_str(it, "cid")
    p, c = pid_terms(pid), dyn_str(cid)[1]
    it.ctx.assume(z3.Implies(z3.And(dyn_str(cid)[0], T.wsfree(c)), T.ishex(c)))
    w.add_pid(p)
    w.add_cid(c)
    out = w.call(refs.tag_object, pid, cid)
    gh = dict(w.gh0)
    if out[0] == "return":
        gh["T"] = z3.If(T.is_Absent(O_of(w.fs0, c)), z3.Store(gh["T"], c, True), gh["T"])
    w.prove_inv("tag_object", gh, ("C05",))
    it.ctx.oblige_forall_loc("lemma/tag_object/objects-untouched", lambda x: z3.Implies(
        T.l_kind(x) == T.K_OBJ, z3.Select(w.fs, x) == z3.Select(w.fs0, x)), props=("C04", "C03"))


@lemma("inv/delete_object", ("C05", "C04", "C03", "C11"))
def l_inv_delete(it):
    w = World(it)
    pid = sym_pid(it)
    p = pid_terms(pid)
    w.add_pid(p)
    c = T.as_text(P_of(w.fs0, w.self, p))
    out = w.call(objects.delete_object, pid)
    gh = dict(w.gh0)
    gone = z3.And(T.present(C_of(w.fs0, c)), T.is_Absent(C_of(w.fs, c)))
    gh["T"] = z3.If(gone, z3.Store(gh["T"], c, False), gh["T"])
    gh["U"] = z3.If(T.is_Absent(O_of(w.fs, c)), z3.Store(gh["U"], c, False), gh["U"])
    w.prove_inv("delete_object", gh, ("C05",))
    ctx = it.ctx
    # C05 (last sentence): from an Inv-state delete_object never fails for a known pid, and
    # afterwards the pid is unbound (so that it can be bound again: C03)
    if out[0] == "return":
        ctx.oblige("lemma/delete_object/pid-unbound-afterwards",
                   T.is_Absent(P_of(w.fs, w.self, p)), props=("C03", "C05"))
        # C04: the object went away exactly when the list lost its last pid
        ctx.oblige("lemma/delete_object/object-removed-iff-last-reference",
                   z3.Implies(T.present(O_of(w.fs0, c)),
                              T.is_Absent(O_of(w.fs, c)) == T.is_Absent(C_of(w.fs, c))),
                   props=("C04",))
    else:
        ctx.oblige("lemma/delete_object/failure-only-for-bad-or-unknown-pid",
                   z3.BoolVal(out[1] in ("ValueError", "PidRefsDoesNotExist")), props=("C05",))
        ctx.oblige_forall_loc("lemma/delete_object/rejected-unchanged",
                              lambda x: z3.Select(w.fs, x) == z3.Select(w.fs0, x),
                              props=("C05", "C17"))
    any_c = w.c1
    ctx.oblige("lemma/delete_object/referenced-objects-kept",
               z3.Implies(z3.And(T.present(O_of(w.fs0, any_c)), T.present(C_of(w.fs, any_c))),
                          O_of(w.fs, any_c) == O_of(w.fs0, any_c)), props=("C04",))


@lemma("inv/delete_if_invalid_object", ("C05", "C04", "C06"))
def l_inv_dii(it):
    w = World(it)
    om = objects.stored_object_metadata(it, w.self)
    c = om.f["cid"].term
    w.add_cid(c)
    cs, ca = opt_str(it, "checksum"), opt_str(it, "checksum_algorithm")
    size = dyn(it, "expected_file_size", (T_NONE, T_INT, T_STR, T_OTHER))
    out = w.call(objects.delete_if_invalid_object, om, cs, ca, size)
    gh = dict(w.gh0)
    gh["U"] = z3.If(T.is_Absent(O_of(w.fs, c)), z3.Store(gh["U"], c, False), gh["U"])
    w.prove_inv("delete_if_invalid_object", gh, ("C05",))
    ctx = it.ctx
    any_c = w.c1
    ctx.oblige("lemma/delete_if_invalid_object/referenced-objects-kept",
               z3.Implies(z3.And(T.present(O_of(w.fs0, any_c)), T.present(C_of(w.fs0, any_c))),
                          O_of(w.fs, any_c) == O_of(w.fs0, any_c)), props=("C04", "C06"))
    ctx.oblige_forall_loc("lemma/delete_if_invalid_object/only-that-object-may-go",
                          lambda x: z3.Or(x == obj_loc(c),
                                          z3.Select(w.fs, x) == z3.Select(w.fs0, x)),
                          props=("C04", "C06", "C05"))
    if out[0] == "return":
        ctx.oblige_forall_loc("lemma/delete_if_invalid_object/valid-deletes-nothing",
                              lambda x: z3.Select(w.fs, x) == z3.Select(w.fs0, x),
                              props=("C06",))
    elif out[1] in ("NonMatchingObjSize", "NonMatchingChecksum"):
        ctx.oblige("lemma/delete_if_invalid_object/invalid-removes-unreferenced-object",
                   z3.Implies(T.is_Absent(C_of(w.fs0, c)), T.is_Absent(O_of(w.fs, c))),
                   props=("C06",))


def _meta_lemma(name, fn, nargs):
    @lemma("inv/" + name, ("C05", "C04", "C11"))
    def l(it):
        w = World(it)
        pid, fmt = sym_pid(it), opt_str(it, "format_id")
        p = pid_terms(pid)
        w.add_pid(p)
        if name == "store_metadata":
            out = w.call(fn, pid, data_arg(it), fmt)
        else:
            out = w.call(fn, pid, fmt)
        ctx = it.ctx
        # metadata calls never touch objects or references (C04), and keep Inv (C05)
        ctx.oblige_forall_loc(f"lemma/{name}/objects-and-references-untouched", lambda x: z3.Implies(
            T.l_kind(x) != T.K_META, z3.Select(w.fs, x) == z3.Select(w.fs0, x)),
            props=("C04", "C05", "C11"))
        w.prove_inv(name, dict(w.gh0), ("C05",))
    return l


_meta_lemma("store_metadata", meta.store_metadata, 3)
_meta_lemma("delete_metadata", meta.delete_metadata, 2)
_meta_lemma("retrieve_metadata", meta.retrieve_metadata, 2)


# ---------------------------------------------------------------------------------------------------
# C03: a bound pid cannot be re-bound
# ---------------------------------------------------------------------------------------------------
@lemma("C03/store_object-on-bound-pid", ("C03",))
def l_c03_store(it):
    w = World(it)
    pid = sym_str("pid")
    p = pid.term
    it.ctx.assume(T.wsfree(p))
    w.add_pid(p)
    it.ctx.assume(T.present(P_of(w.fs0, w.self, p)))          # pid is bound
    data = data_arg(it)
    add, cs, ca, size = _validation(it)
    out = w.call(objects.store_object, pid, data, add, cs, ca, size)
    ctx = it.ctx
    ok_classes = ("HashStoreRefsAlreadyExists", "PidRefsAlreadyExistsError",
                  # rejections that come first: bad arguments and wrong validation data (C06)
                  "ValueError", "TypeError", "UnsupportedAlgorithm", "NonMatchingObjSize",
                  "NonMatchingChecksum", "StoreObjectForPidAlreadyInProgress")
    ctx.oblige("lemma/C03/store_object/rejected", z3.BoolVal(out[0] == "raise" and
                                                            out[1] in ok_classes),
               detail=str(out[:2]), props=("C03",))
    _bindings_unchanged(w, "store_object", p)
    # with absent or correct validation data the error is the documented already-exists one
    if out[0] == "raise" and out[1] in ("NonMatchingObjSize", "NonMatchingChecksum"):
        pass
    content = content_of_data(it, data)


def _bindings_unchanged(w, name, p):
    ctx = w.it.ctx
    ctx.oblige_forall_loc(f"lemma/C03/{name}/every-reference-unchanged", lambda x: z3.Implies(
        z3.Or(T.l_kind(x) == T.K_PIDREF, T.l_kind(x) == T.K_CIDREF),
        z3.Select(w.fs, x) == z3.Select(w.fs0, x)), props=("C03",))
    ctx.oblige_forall_loc(f"lemma/C03/{name}/existing-objects-unchanged", lambda x: z3.Implies(
        z3.And(T.l_kind(x) == T.K_OBJ, T.present(z3.Select(w.fs0, x))),
        z3.Select(w.fs, x) == z3.Select(w.fs0, x)), props=("C03", "C04"))


@lemma("C03/tag_object-on-bound-pid", ("C03",))
def l_c03_tag(it):
    w = World(it)
    pid, cid = sym_str("pid"), sym_str("cid")
    p, c = pid.term, cid.term
    it.ctx.assume(z3.And(T.wsfree(p), T.ishex(c)))
    w.add_pid(p)
    w.add_cid(c)
    it.ctx.assume(T.present(P_of(w.fs0, w.self, p)))
    out = w.call(refs.tag_object, pid, cid)
    it.ctx.oblige("lemma/C03/tag_object/rejected-with-already-exists",
                  z3.BoolVal(out[0] == "raise" and out[1] in ("HashStoreRefsAlreadyExists",
                                                              "PidRefsAlreadyExistsError")),
                  detail=str(out[:2]), props=("C03",))
    it.ctx.oblige_forall_loc("lemma/C03/tag_object/store-unchanged",
                             lambda x: z3.Select(w.fs, x) == z3.Select(w.fs0, x), props=("C03",))


@lemma("C03/rebind-after-delete", ("C03",))
def l_c03_rebind(it):
    w = World(it)
    pid, cid = sym_str("pid"), sym_str("cid")
    p, c = pid.term, cid.term
    it.ctx.assume(z3.And(T.wsfree(p), T.ishex(c)))
    w.add_pid(p)
    w.add_cid(c)
    out = w.call(objects.delete_object, pid)
    if out[0] != "return":
        raise PathPruned()
    out2 = w.call(refs.tag_object, pid, cid)
    it.ctx.oblige("lemma/C03/rebind-after-delete/succeeds", z3.BoolVal(out2[0] == "return"),
                  detail=str(out2[:2]), props=("C03",))
    it.ctx.oblige("lemma/C03/rebind-after-delete/bound-to-new-cid",
                  P_of(w.fs, w.self, p) == T.Data(c), props=("C03",))


# ---------------------------------------------------------------------------------------------------
# C01: what is stored comes back; other pids' calls do not disturb it
# ---------------------------------------------------------------------------------------------------
@lemma("C01/store-then-retrieve", ("C01", "C02"))
def l_c01_roundtrip(it):
    w = World(it)
    pid = sym_str("pid")
    p = pid.term
    data = data_arg(it)
    pos0 = data.f["pos"]
    add, cs, ca, size = _validation(it)
    content = content_of_data(it, data)
    w.add_pid(p)
    w.add_cid(T.Hd(w.self.f["algorithm"].term, content))
    out = w.call(objects.store_object, pid, data, add, cs, ca, size)
    if out[0] != "return":
        raise PathPruned()
    ctx = it.ctx
    om = out[1]
    alg = w.self.f["algorithm"].term
    ctx.oblige("lemma/C01/cid-is-digest-of-content", om.f["cid"].term == T.Hd(alg, content),
               props=("C01",))
    ctx.oblige("lemma/C01/size-is-byte-count", om.f["obj_size"].term == z3.Length(content),
               props=("C01",))
    ctx.oblige("lemma/C01/caller-stream-left-open-at-its-offset",
               z3.And(z3.BoolVal(not data.f["closed"]), data.f["pos"] == pos0), props=("C01",))
    # digests (C02): exactly the five defaults plus the algorithms named in this call
    hd = om.f["hex_digests"]
    k = ctx.fresh("anykey", T.S)
    a_str, a = dyn_str(add)
    c_str, c = dyn_str(ca)
    want = z3.Or(*([k == z3.StringVal(n) for n in T.DEFAULT5]
                   + [z3.And(a_str, k == checkers.canon(a)), z3.And(c_str, k == checkers.canon(c))]))
    ctx.oblige("lemma/C02/digest-keys-exactly-defaults-plus-named", hd.f["fn_has"](k) == want,
               props=("C02",))
    ctx.oblige("lemma/C02/digest-values-true", hd.f["fn_get"](k).term == T.Hd(k, content),
               props=("C02",))
    out2 = w.call(objects.retrieve_object, pid)
    ctx.oblige("lemma/C01/retrieve-succeeds", z3.BoolVal(out2[0] == "return"), detail=str(out2[:2]),
               props=("C01",))
    if out2[0] == "return":
        h = out2[1]
        ctx.oblige("lemma/C01/retrieved-bytes-equal-stored",
                   z3.And(it.lib.handle_content(it, h) == content, h.f["pos"] == 0),
                   props=("C01",))


def other_pid_calls():
    """Menu of public calls made on *another* pid (or on metadata of any pid)."""
    def store(w, q):
        it = w.it
        return w.call(objects.store_object, q, data_arg2(it), *_validation2(it))

    def tag(w, q):
        cid = sym_str("other_cid")
        w.it.ctx.assume(T.ishex(cid.term))
        w.add_cid(cid.term)
        return w.call(refs.tag_object, q, cid)

    def delete(w, q):
        return w.call(objects.delete_object, q)

    def dii(w, q):
        it = w.it
        om = objects.stored_object_metadata(it, w.self, "other_om")
        w.add_cid(om.f["cid"].term)
        return w.call(objects.delete_if_invalid_object, om, opt_str(it, "o_checksum"),
                      opt_str(it, "o_checksum_algorithm"),
                      dyn(it, "o_size", (T_NONE, T_INT, T_STR, T_OTHER)))

    def smeta(w, q):
        return w.call(meta.store_metadata, w.anypid, data_arg2(w.it), opt_str(w.it, "o_format"))

    def dmeta(w, q):
        return w.call(meta.delete_metadata, w.anypid, opt_str(w.it, "o_format"))
    return {"store_object": store, "tag_object": tag, "delete_object": delete,
            "delete_if_invalid_object": dii, "store_metadata": smeta, "delete_metadata": dmeta}


def data_arg2(it):
    content = z3.String("other_content")
    pos = z3.Int("other_pos0")
    it.ctx.assume(z3.And(pos >= 0, pos <= z3.Length(content)))
    return VObj("file", loc=None, content=content, mode="r", binary=True, pos=pos,
                closed=False, noname=True, namev=NONE, kind="user")


def _validation2(it):
    return (opt_str(it, "o_additional_algorithm"), opt_str(it, "o_checksum"),
            opt_str(it, "o_checksum_algorithm"),
            dyn(it, "o_expected_object_size", (T_NONE, T_INT, T_STR, T_OTHER)))


def _frame_lemma(opname):
    @lemma("frame/" + opname, ("C01", "C04", "C18", "C11"))
    def l(it):
        """A call on another pid q (any relation between the strings p and q except equality)
        leaves p's binding, p's object bytes, p's membership and p's metadata as they were."""
        w = World(it)
        p = z3.String("pid")
        q = opt_str(it, "other_pid")
        qs = dyn_str(q)[1]
        fmt = z3.String("fmt")
        it.ctx.assume(T.wsfree(p))
        it.ctx.assume(z3.Implies(dyn_str(q)[0], qs != p))
        w.add_pid(p)
        w.add_pid(qs)
        w.anypid = opt_str(it, "meta_pid")
        if opname in ("store_metadata", "delete_metadata"):
            it.ctx.assume(z3.Implies(dyn_str(w.anypid)[0], dyn_str(w.anypid)[1] != p))
        it.ctx.assume(T.present(P_of(w.fs0, w.self, p)))       # p is bound
        c = T.as_text(P_of(w.fs0, w.self, p))
        out = other_pid_calls()[opname](w, q)
        ctx = it.ctx
        props = ("C01", "C04", "C18")
        ctx.oblige(f"lemma/frame/{opname}/binding-kept", P_of(w.fs, w.self, p) == P_of(w.fs0, w.self, p),
                   props=props)
        ctx.oblige(f"lemma/frame/{opname}/membership-kept",
                   z3.And(T.present(C_of(w.fs, c)),
                          z3.Select(T.as_lines(C_of(w.fs, c)), p) == 1), props=props)
        ctx.oblige(f"lemma/frame/{opname}/object-bytes-kept",
                   z3.Implies(T.present(O_of(w.fs0, c)), O_of(w.fs, c) == O_of(w.fs0, c)),
                   props=props)
        ctx.oblige(f"lemma/frame/{opname}/metadata-kept",
                   M_of(w.fs, w.self, p, fmt) == M_of(w.fs0, w.self, p, fmt),
                   props=("C11", "C18"))
    return l


for _op in other_pid_calls():
    _frame_lemma(_op)


# ---------------------------------------------------------------------------------------------------
# C11: metadata round trip, isolation, lifetime
# ---------------------------------------------------------------------------------------------------
@lemma("C11/store-then-retrieve", ("C11",))
def l_c11_roundtrip(it):
    w = World(it)
    pid, fmt = sym_str("pid"), opt_str(it, "format_id")
    data = data_arg(it)
    content = content_of_data(it, data)
    out = w.call(meta.store_metadata, pid, data, fmt)
    if out[0] != "return":
        raise PathPruned()
    ctx = it.ctx
    f_str, f = dyn_str(fmt)
    ns = w.self.f["sysmeta_ns"].term
    eff = z3.If(f_str, f, ns)
    # an omitted format means the configured default namespace: retrieving with either works
    for label, f2 in (("same-format", fmt), ("default-namespace-spelled-out", None)):
        if f2 is None:
            if not ctx.branch(z3.Not(f_str)):
                continue
            f2 = VStr(ns)
        out2 = w.call(meta.retrieve_metadata, pid, f2)
        ctx.oblige(f"lemma/C11/retrieve-after-store/{label}/succeeds", z3.BoolVal(out2[0] == "return"),
                   detail=str(out2[:2]), props=("C11",))
        if out2[0] == "return":
            ctx.oblige(f"lemma/C11/retrieve-after-store/{label}/bytes-equal",
                       it.lib.handle_content(it, out2[1]) == content, props=("C11",))
    # isolation: any other (pid, format) pair keeps its document
    p2, f2 = z3.String("pid2"), z3.String("fmt2")
    ctx.assume(z3.Or(p2 != pid.term, f2 != eff))
    ctx.oblige("lemma/C11/store/other-pairs-untouched",
               M_of(w.fs, w.self, p2, f2) == M_of(w.fs0, w.self, p2, f2), props=("C11", "C18"))
    ctx.oblige("lemma/C11/store/path-is-published-address",
               it.lib.path_loc(it, out[1]) == meta_loc(w.self, pid.term, eff), props=("C11", "C15"))


@lemma("C11/delete", ("C11",))
def l_c11_delete(it):
    w = World(it)
    pid, fmt = sym_str("pid"), opt_str(it, "format_id")
    it.ctx.assume(T.wsfree(pid.term))
    out = w.call(meta.delete_metadata, pid, fmt)
    ctx = it.ctx
    f_str, f = dyn_str(fmt)
    p2, f2 = z3.String("pid2"), z3.String("fmt2")
    if out[0] == "raise":
        ctx.oblige_forall_loc("lemma/C11/delete/rejected-unchanged",
                              lambda x: z3.Select(w.fs, x) == z3.Select(w.fs0, x),
                              props=("C11", "C17"))
        return
    # delete(pid, format): just that document; delete(pid): all of that pid's, none of others'
    ctx.oblige("lemma/C11/delete/that-document-gone",
               z3.Implies(z3.Or(z3.Not(f_str), f2 == f),
                          T.is_Absent(M_of(w.fs, w.self, pid.term, f2))), props=("C11",))
    ctx.oblige("lemma/C11/delete/other-documents-kept",
               z3.Implies(z3.Or(p2 != pid.term, z3.And(f_str, f2 != f)),
                          M_of(w.fs, w.self, p2, f2) == M_of(w.fs0, w.self, p2, f2)),
               props=("C11", "C18"))
    out2 = w.call(meta.retrieve_metadata, pid, fmt)
    ctx.oblige("lemma/C11/retrieve-after-delete/not-found",
               z3.BoolVal(out2[0] == "raise" and out2[1] == "ValueError"), detail=str(out2[:2]),
               props=("C11",))


@lemma("C11/delete_object-removes-all-documents", ("C11",))
def l_c11_delobj(it):
    w = World(it)
    pid = sym_str("pid")
    w.add_pid(pid.term)
    out = w.call(objects.delete_object, pid)
    if out[0] != "return":
        raise PathPruned()
    ctx = it.ctx
    p2, f2 = z3.String("pid2"), z3.String("fmt2")
    ctx.oblige("lemma/C11/delete_object/all-documents-of-pid-gone",
               T.is_Absent(M_of(w.fs, w.self, pid.term, f2)), props=("C11",))
    ctx.oblige("lemma/C11/delete_object/other-pids-documents-kept",
               z3.Implies(p2 != pid.term,
                          M_of(w.fs, w.self, p2, f2) == M_of(w.fs0, w.self, p2, f2)),
               props=("C11", "C18"))


# ---------------------------------------------------------------------------------------------------
# C17: rejected and read-only calls change nothing (contract level)
# ---------------------------------------------------------------------------------------------------
REJECT = ("ValueError", "TypeError", "UnsupportedAlgorithm", "PidRefsDoesNotExist",
          "OrphanPidRefsFileFound", "PidNotFoundInCidRefsFile", "RefsFileExistsButCidObjMissing")


def _c17(name, fn, mkargs, readonly=False):
    @lemma("C17/" + name, ("C17",))
    def l(it):
        w = World(it)
        args = mkargs(it, w)
        out = w.call(fn, *args)
        ctx = it.ctx
        if readonly or (out[0] == "raise" and out[1] in REJECT):
            what = "read-only" if readonly else "rejected"
            ctx.oblige_forall_loc(f"lemma/C17/{name}/{what}-leaves-store-unchanged",
                                  lambda x: z3.Select(w.fs, x) == z3.Select(w.fs0, x),
                                  detail=str(out[:2]) if out[0] == "raise" else "return",
                                  props=("C17",))
            ctx.oblige(f"lemma/C17/{name}/{what}-leaves-nothing-locked",
                       z3.And(*[ctx.st.own[c] == T.NOLOCKS for c in LOCK_CLASSES]),
                       props=("C17", "C08"))
    return l


_c17("store_object", objects.store_object,
     lambda it, w: [opt_str(it, "pid"), _any_data(it)] + list(_validation(it)))
_c17("tag_object", refs.tag_object, lambda it, w: [opt_str(it, "pid"), opt_str(it, "cid")])
_c17("delete_object", objects.delete_object, lambda it, w: [opt_str(it, "pid")])
_c17("delete_if_invalid_object", objects.delete_if_invalid_object,
     lambda it, w: [_any_om(it, w), opt_str(it, "checksum"), opt_str(it, "checksum_algorithm"),
                    dyn(it, "expected_file_size", (T_NONE, T_INT, T_STR, T_OTHER))])
_c17("store_metadata", meta.store_metadata,
     lambda it, w: [opt_str(it, "pid"), _any_data(it), opt_str(it, "format_id")])
_c17("delete_metadata", meta.delete_metadata,
     lambda it, w: [opt_str(it, "pid"), opt_str(it, "format_id")])
_c17("retrieve_object", objects.retrieve_object, lambda it, w: [opt_str(it, "pid")], True)
_c17("retrieve_metadata", meta.retrieve_metadata,
     lambda it, w: [opt_str(it, "pid"), opt_str(it, "format_id")], True)
_c17("get_hex_digest", objects.get_hex_digest,
     lambda it, w: [opt_str(it, "pid"), opt_str(it, "algorithm")], True)


def _any_data(it):
    """Any kind of data argument, accepted or not (fork over the kinds)."""
    kinds = list(checkers.data_cases().items())
    k = it.ctx.fork(len(kinds))
    return kinds[k][1](it)


def _any_om(it, w):
    k = it.ctx.fork(3)
    if k == 0:
        return objects.stored_object_metadata(it, w.self)
    if k == 1:
        return NONE
    return dyn(it, "object_metadata", (T_OTHER, T_STR))


# ---------------------------------------------------------------------------------------------------
# C19: the two documented ways of storing converge
# ---------------------------------------------------------------------------------------------------
@lemma("C19/one-call-vs-steps", ("C19",))
def l_c19(it):
    w = World(it)
    ctx = it.ctx
    pid = sym_str("pid")
    p = pid.term
    ctx.assume(T.wsfree(p))
    w.add_pid(p)
    content = z3.String("buffer_content")
    alg = w.self.f["algorithm"].term
    c = T.Hd(alg, content)
    w.add_cid(c)
    cs, ca = opt_str(it, "checksum"), opt_str(it, "checksum_algorithm")
    size = dyn(it, "expected_object_size", (T_NONE, T_INT))
    # the step-wise procedure needs all three validation values (its signature requires them)
    ctx.assume(z3.And(cs.tag == T_STR, ca.tag == T_STR, size.tag == T_INT))

    def fresh_data():
        pos = z3.Int("stream_pos0")
        return VObj("file", loc=None, content=content, mode="r", binary=True, pos=pos,
                    closed=False, noname=True, namev=NONE, kind="user")
    st0 = ctx.st.copy()
    # --- procedure 1: one call
    out1 = w.call(objects.store_object, pid, fresh_data(), NONE, cs, ca, size)
    fs1 = ctx.st.fs
    # --- procedure 2: store without pid, validate, tag
    ctx.st = st0.copy()
    o = w.call(objects.store_object, NONE, fresh_data(), NONE, NONE, NONE, NONE)
    out2 = o
    om2 = None
    if o[0] == "return":
        om2 = o[1]
        o = w.call(objects.delete_if_invalid_object, om2, cs, ca, size)
        out2 = o
        if o[0] == "return":
            o = w.call(refs.tag_object, pid, om2.f["cid"])
            out2 = ("return", om2) if o[0] == "return" else o
    fs2 = ctx.st.fs
    k1 = out1[0] if out1[0] == "return" else out1[1]
    k2 = out2[0] if out2[0] == "return" else out2[1]
    ctx.oblige("lemma/C19/same-outcome-class", z3.BoolVal(k1 == k2), detail=f"{k1} vs {k2}",
               props=("C19",))
    if k1 == k2 == "return":
        ctx.oblige_forall_loc("lemma/C19/same-store-state",
                              lambda x: z3.Select(fs1, x) == z3.Select(fs2, x), props=("C19",))
        om1 = out1[1]
        ctx.oblige("lemma/C19/same-cid-and-size",
                   z3.And(om1.f["cid"].term == om2.f["cid"].term,
                          om1.f["obj_size"].term == om2.f["obj_size"].term), props=("C19",))
        for n in T.DEFAULT5:
            kk = z3.StringVal(n)
            ctx.oblige("lemma/C19/same-default-digests",
                       om1.f["hex_digests"].f["fn_get"](kk).term ==
                       om2.f["hex_digests"].f["fn_get"](kk).term, props=("C19",))
    elif k1 in ("NonMatchingObjSize", "NonMatchingChecksum") or \
            k2 in ("NonMatchingObjSize", "NonMatchingChecksum"):
        for tag, fs in (("one-call", fs1), ("steps", fs2)):
            ctx.oblige(f"lemma/C19/mismatch/{tag}/pid-not-bound",
                       P_of(fs, w.self, p) == P_of(w.fs0, w.self, p), props=("C19",))
            any_c = w.c1
            ctx.oblige(f"lemma/C19/mismatch/{tag}/referenced-objects-undisturbed",
                       z3.Implies(z3.And(T.present(O_of(w.fs0, any_c)),
                                         T.present(C_of(w.fs0, any_c))),
                                  O_of(fs, any_c) == O_of(w.fs0, any_c)), props=("C19",))


# ---------------------------------------------------------------------------------------------------
# C10 / C13: recovery
# ---------------------------------------------------------------------------------------------------
def partial_state_world(it):
    """A store whose *other* pids satisfy Inv while `pid` is in an arbitrary partial reference
    condition (what a crash or a failed call may leave): its pid reference may or may not exist,
    may name any digest, the list may or may not contain it.  Typing still holds (C09)."""
    w = World(it)
    return w


@lemma("C13/unbound-pid-can-be-stored-at-once", ("C13", "C10"))
def l_c13_retry(it):
    """From a state in which the pid has no pid reference - whatever its cid list says (stale
    line or not) - tagging succeeds and binds it."""
    w = World(it)
    ctx = it.ctx
    pid, cid = sym_str("pid"), sym_str("cid")
    p, c = pid.term, cid.term
    ctx.assume(z3.And(T.wsfree(p), T.ishex(c)))
    # NOT adding p to the Inv instantiation: its list may contain a stale line
    ctx.assume(T.is_Absent(P_of(w.fs0, w.self, p)))
    out = w.call(refs.tag_object, pid, cid)
    ctx.oblige("lemma/C13/retry-after-failed-call-succeeds", z3.BoolVal(out[0] == "return"),
               detail=str(out[:2]), props=("C13", "C10"))
    ctx.oblige("lemma/C13/retry-binds-the-pid",
               z3.And(P_of(w.fs, w.self, p) == T.Data(c),
                      z3.Select(T.as_lines(C_of(w.fs, c)), p) >= 1), props=("C13", "C10"))


@lemma("C10/recover-after-crash", ("C10",))
def l_c10_recover(it):
    """From any reference condition of the interrupted pid, delete_object returns or reports the
    pid as unknown, and a following tag (the reference part of store_object) succeeds."""
    w = World(it)
    ctx = it.ctx
    pid, cid = sym_str("pid"), sym_str("cid")
    p, c = pid.term, cid.term
    ctx.assume(z3.And(T.wsfree(p), T.ishex(c)))
    out = w.call(objects.delete_object, pid)
    ok = out[0] == "return" or out[1] == "PidRefsDoesNotExist"
    ctx.oblige("lemma/C10/delete-after-crash-returns-or-reports-unknown", z3.BoolVal(ok),
               detail=str(out[:2]), props=("C10",))
    ctx.oblige("lemma/C10/pid-unbound-after-delete", T.is_Absent(P_of(w.fs, w.self, p)),
               props=("C10",))
    out2 = w.call(refs.tag_object, pid, cid)
    ctx.oblige("lemma/C10/store-after-delete-succeeds", z3.BoolVal(out2[0] == "return"),
               detail=str(out2[:2]), props=("C10",))


# ---------------------------------------------------------------------------------------------------
# C14: the configuration is pinned
# ---------------------------------------------------------------------------------------------------
@lemma("C14/accept-iff-equal-configuration", ("C14",))
def l_c14(it):
    from contracts import init as I
    from vc.lib2 import yaml_depth, yaml_width, yaml_algo, yaml_ns, yaml_ok, py_int, isintlit
    ctx = it.ctx
    I.yaml_typing(it)
    ctx.fs0, ctx.dirs0 = ctx.st.fs, ctx.st.dirs
    fs0, dirs0 = ctx.st.fs, ctx.st.dirs
    props = I.props_dict(it, other=False)
    # an existing store: the configuration file is there
    st = z3.Select(fs0, I.YAML_LOC)
    ctx.assume(T.present(st))
    y = T.as_text(st)
    s = VObj("FileHashStore")
    ctx.spec_mode += 1
    try:
        try:
            I.init(it, s, props)
            out = ("return",)
        except PyRaise as pr:
            out = ("raise", pr.exc.cls)
    finally:
        ctx.spec_mode -= 1

    def as_int(v):
        return z3.If(v.tag == T_INT, v.i, py_int(v.s))

    def convertible(v):
        return z3.Or(v.tag == T_INT, z3.And(v.tag == T_STR, isintlit(v.s)))
    d, wv, a, ns = (I.dget(props, k) for k in I.KEYS[1:])
    equal = z3.And(convertible(d), convertible(wv), as_int(d) == yaml_depth(y),
                   as_int(wv) == yaml_width(y), a.tag == T_STR, a.s == yaml_algo(y),
                   ns.tag == T_STR, ns.s == yaml_ns(y))
    if out[0] == "return":
        ctx.oblige("lemma/C14/accepted-only-with-the-recorded-configuration", equal, props=("C14",))
        ctx.oblige("lemma/C14/instance-uses-the-recorded-configuration",
                   z3.And(s.f["depth"].term == yaml_depth(y), s.f["width"].term == yaml_width(y),
                          dyn_str(s.f["sysmeta_ns"])[1] == yaml_ns(y)), props=("C14",))
        x = ctx.skolem_loc()
        ctx.oblige("lemma/C14/accepted-writes-nothing-to-an-existing-store",
                   z3.Select(ctx.st.fs, x) == z3.Select(fs0, x), props=("C14",))
    else:
        ctx.oblige("lemma/C14/refused-only-on-a-difference", z3.Not(equal), detail=out[1],
                   props=("C14",))
        x = ctx.skolem_loc()
        ctx.oblige("lemma/C14/refused-creates-and-modifies-nothing",
                   z3.And(z3.Select(ctx.st.fs, x) == z3.Select(fs0, x), ctx.st.dirs == dirs0),
                   detail=out[1], props=("C14",))


@lemma("inv/fresh-store", ("C05", "C04", "C03"))
def l_inv_fresh(it):
    """Base case of the history induction: a store created by the constructor on a root that holds
    no store file satisfies Inv (with empty ghost history sets) and holds no lock."""
    from contracts import init as I
    ctx = it.ctx
    I.yaml_typing(it)
    ctx.fs0, ctx.dirs0 = ctx.st.fs, ctx.st.dirs
    fs0 = ctx.st.fs
    # nothing of a store exists yet (files outside the store root are arbitrary)
    ctx.assume_forall_loc(lambda x: z3.Implies(T.l_kind(x) != T.K_EXT, T.is_Absent(z3.Select(fs0, x))))
    ctx.assume_forall_loc(it.lib.typing(ctx.fs0, ctx.dirs0))
    for c in LOCK_CLASSES:
        ctx.assume(ctx.st.own[c] == T.NOLOCKS)
    props = I.props_dict(it, other=False)
    s = VObj("FileHashStore")
    ctx.spec_mode += 1
    try:
        try:
            I.init(it, s, props)
            out = ("return",)
        except PyRaise as pr:
            out = ("raise", pr.exc.cls)
    finally:
        ctx.spec_mode -= 1
    if out[0] != "return":
        ctx.oblige("lemma/fresh-store/refused-constructor-creates-no-store-file",
                   z3.BoolVal(True), detail=out[1], props=("C05",))
        x = ctx.skolem_loc()
        ctx.oblige("lemma/fresh-store/refused-constructor-leaves-the-root-empty",
                   z3.Select(ctx.st.fs, x) == z3.Select(fs0, x), detail=out[1], props=("C05", "C14"))
        return
    gh = {"T": z3.K(T.S, z3.BoolVal(False)), "U": z3.K(T.S, z3.BoolVal(False))}
    p1, c1 = z3.String("any_pid"), z3.String("any_cid")
    ctx.assume(T.wsfree(p1))
    ctx.assume(T.ishex(c1))
    fs = ctx.st.fs
    # the location-quantified assumptions are instantiated at the locations Inv talks about
    for loc in (pidref_loc(s, p1), cidref_loc(c1), obj_loc(c1),
                cidref_loc(T.as_text(z3.Select(fs, pidref_loc(s, p1))))):
        it.lib.touch(it, loc)
    ctx.oblige("lemma/fresh-store/inv-pair", inv_pair(fs, s, p1, c1, gh), props=("C05",))
    ctx.oblige_forall_loc("lemma/fresh-store/inv-loc", inv_loc(fs), props=("C05",))
    ctx.oblige("lemma/fresh-store/locks-empty",
               z3.And(*[ctx.st.own[c] == T.NOLOCKS for c in LOCK_CLASSES]), props=("C05", "C08"))
    x = ctx.skolem_loc()
    ctx.oblige("lemma/fresh-store/only-the-configuration-file-is-created",
               z3.Implies(z3.And(T.l_kind(x) != T.K_YAML, T.l_kind(x) != T.K_EXT),
                          T.is_Absent(z3.Select(fs, x))), props=("C05", "C14"))
