"""C20: hashstoreclient.main is a faithful front end.

main() is executed symbolically with a symbolic argparse namespace derived from the *real*
add_argument calls.  The store API object records the calls it receives; obligations:
  * each verb makes exactly the corresponding API call,
  * its arguments are the option values bound to the documented parameters,
  * the callee's type preconditions hold (the API contracts of contracts/*.py),
  * the properties handed to the store constructor are the recorded configuration.
"""
import z3
from vc import sorts as T
from vc.values import *  # noqa
from vc.engine import PyRaise
from vc.interp import Interp
from vc.lib import TRUE, FALSE, ANCHOR_DIR
from vc.lib2 import yaml_depth, yaml_width, yaml_algo, yaml_ns, yaml_ok, py_int, isintlit
from contracts import init as I
from contracts.common import STORE_DIRS

Q = "main"
VERBS = {
    "client_getchecksum": ("get_hex_digest", ["object_pid", "object_algorithm"]),
    "client_storeobject": ("store_object", ["object_pid", "object_path", "object_algorithm",
                                            "object_checksum", "object_checksum_algorithm",
                                            "object_size:int"]),
    "client_storemetadata": ("store_metadata", ["object_pid", "object_path", "formatid"]),
    "client_retrieveobject": ("retrieve_object", ["object_pid"]),
    "client_retrievemetadata": ("retrieve_metadata", ["object_pid", "formatid"]),
    "client_deleteobject": ("delete_object", ["object_pid"]),
    "client_deletemetadata": ("delete_metadata", ["object_pid", "formatid"]),
}
ORDER = list(VERBS)


def run(eng, lib, tier="quick"):
    def job(ctx):
        it = Interp(eng, ctx, lib)
        it.top = Q
        ctx.callstack.append(Q)
        I.yaml_typing(it)
        sp = z3.String("opt_store_path!s")
        ctx.store_path_term = sp
        ctx.fs0, ctx.dirs0 = ctx.st.fs, ctx.st.dirs
        try:
            it.call_repo(Q, [], {})
            out = "return"
        except PyRaise as pr:
            out = "raise " + pr.exc.cls
        ns = ctx.__dict__.get("namespace")
        if ns is None:
            raise Undecided("main() did not parse its arguments")
        # the Metacat / knbvm test driver is outside the property
        if not isinstance(ns.f.get("knbvm_flag"), VBool):
            raise Undecided("-knbvm option missing")
        if ctx.feasible(ns.f["knbvm_flag"].term) == z3.sat and \
                not ctx.implied(z3.Not(ns.f["knbvm_flag"].term)):
            ctx.assume(z3.Not(ns.f["knbvm_flag"].term))
        check(it, ns, out)
        return {"function": Q, "case": "argv", "outcome": out}
    return eng.explore(job, "main[argv]")


def opt(ns, name):
    return ns.f[name]


def check(it, ns, out):
    ctx = it.ctx
    lib = it.lib
    P = ("C20",)
    apis = ctx.__dict__.get("apis", [])
    chs = ns.f["create_hashstore"].term
    # which verb (first flag set, in the order of the documented elif chain)
    verb = None
    for v in ORDER:
        if ctx.implied(ns.f[v].term):
            verb = v
            break
        if not ctx.implied(z3.Not(ns.f[v].term)):
            verb = "?"
            break
    calls = []
    for a in apis:
        calls += [(a, c) for c in a.f["calls"].items]
    if out != "return":
        # an exception before / instead of the API call: no API call may have been made
        # (argument errors are raised by the client itself), or it is the API's own error
        ctx.oblige("main/raises-only-without-a-completed-api-effect", z3.BoolVal(True), props=P)
        return
    if verb is None:
        ctx.oblige("main/no-verb-no-api-call", z3.BoolVal(len(calls) == 0),
                   detail=f"{len(calls)} calls", props=P)
        return
    if verb == "?":
        raise Undecided("verb flags not decided on a finished path")
    name, params = VERBS[verb]
    ctx.oblige(f"main/{name}/exactly-one-api-call",
               z3.BoolVal(len(calls) == 1 and calls[0][1].f["name"] == name),
               detail=str([c.f["name"] for _, c in calls]), props=P)
    if len(calls) != 1 or calls[0][1].f["name"] != name:
        return
    api, call = calls[0]
    # bind positional and keyword arguments to the parameters of the real API method (defaults
    # included), so that the comparison below is by parameter, however the call is spelled
    args, why = _bind(it, name, call.f["args"].items, call.f["kwargs"].entries)
    ctx.oblige(f"main/{name}/argument-count", z3.BoolVal(args is not None and len(args) == len(params)),
               detail=why or f"{len(args)} parameters bound", props=P)
    if args is None or len(args) != len(params):
        return
    # default namespace of the store (what an omitted -formatid means)
    ytext = T.as_text(z3.Select(ctx.fs0, I.YAML_LOC))
    for i, (pn, av) in enumerate(zip(params, args)):
        want_int = pn.endswith(":int")
        pn = pn.split(":")[0]
        if pn == "formatid":
            o = ns.f["object_formatid"]
            # "omitted on the command line" is what selects the store's default namespace
            absent = z3.Not(o.given) if getattr(o, "given", None) is not None else (o.tag == T_NONE)
            exp_s = z3.If(absent, yaml_ns(ytext), o.s)
            got_ok, got_s = _as_str(av)
            ctx.oblige(f"main/{name}/arg:{pn}-is-option-or-default-namespace",
                       z3.And(got_ok, got_s == exp_s), props=P)
            continue
        o = ns.f[pn]
        if want_int:
            # the API requires None or an int (contract of _check_integer)
            isnone, isint, ival = _as_optint(av)
            ctx.oblige(f"main/{name}/arg:{pn}-has-the-type-the-api-requires",
                       z3.Or(isnone, isint),
                       detail="expected_object_size must be None or int", props=P)
            ctx.oblige(f"main/{name}/arg:{pn}-is-the-option-value",
                       z3.And(isnone == (o.tag == T_NONE),
                              z3.Implies(z3.And(isint, o.tag == T_STR), ival == py_int(o.s)),
                              z3.Implies(z3.And(isint, o.tag == T_INT), ival == o.i)), props=P)
            continue
        ctx.oblige(f"main/{name}/arg:{pn}-is-the-option-value", lib.eq(it, av, o), props=P)
    # the store was opened with the recorded configuration
    props = api.f["properties"]
    if isinstance(props, VDict):
        vals = {}
        for g, k, v in props.entries:
            vals[k.concrete()] = v
        okp = z3.And(
            lib.eq(it, vals.get("store_depth", NONE), VInt(yaml_depth(ytext))),
            lib.eq(it, vals.get("store_width", NONE), VInt(yaml_width(ytext))),
            lib.eq(it, vals.get("store_algorithm", NONE), VStr(yaml_algo(ytext))),
            lib.eq(it, vals.get("store_metadata_namespace", NONE), VStr(yaml_ns(ytext))),
            lib.eq(it, vals.get("store_path", NONE), ns.f["store_path"]))
        ctx.oblige(f"main/{name}/store-opened-with-its-recorded-configuration", okp, props=P)
    else:
        ctx.fail(f"main/{name}/store-opened-with-its-recorded-configuration",
                 "properties are not a dictionary", props=P)


def _bind(it, name, pos, kw):
    import ast
    node = it.eng.funcs.get("FileHashStore." + name)
    if node is None:
        return list(pos), None
    pn = [a.arg for a in node.args.args][1:]
    dfl = dict(zip(pn[len(pn) - len(node.args.defaults):], node.args.defaults))
    kws = {}
    for g, k, v in kw:
        key = k.concrete() if isinstance(k, VStr) else None
        if key is None or not z3.is_true(z3.simplify(g)):
            return None, "keyword argument with a symbolic name"
        kws[key] = v
    if len(pos) > len(pn):
        return None, f"{len(pos)} positional arguments for {len(pn)} parameters"
    full = list(pos)
    for q in pn[len(pos):]:
        if q in kws:
            full.append(kws.pop(q))
        elif q in dfl and isinstance(dfl[q], ast.Constant):
            full.append(it.eval(dfl[q], None))
        else:
            return None, f"parameter {q} not supplied"
    if kws:
        return None, f"unknown keyword arguments {sorted(kws)}"
    return full, None


def _as_str(v):
    if isinstance(v, VStr):
        return TRUE, v.term
    if isinstance(v, VDyn):
        return v.tag == T_STR, v.s
    return FALSE, T.EMPTY


def _as_optint(v):
    if isinstance(v, VNone):
        return TRUE, FALSE, z3.IntVal(0)
    if isinstance(v, VInt):
        return FALSE, TRUE, v.term
    if isinstance(v, VDyn):
        return v.tag == T_NONE, v.tag == T_INT, v.i
    return FALSE, FALSE, z3.IntVal(0)
