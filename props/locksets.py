"""Cross-scenario lock-discipline clauses (C07 / C12) computed from the lock sets the step
monitor recorded at every access to a guarded location.

  one-guard   every location class has one guarding lock class: the intersection, over all sites
              that write the class, of the lock classes held there is non-empty
  R-coverage  baseline-relative regression guard: at every access site recorded in the committed
              baseline_locksets.json the lock classes held have not shrunk
"""
import json
import os

GUARD_CLASSES = {"PidRef": {"objpid", "refpid"}, "CidRef": {"cid"}, "Obj": {"cid"},
                 "Meta": {"doc"}}
WHICH = {"locks-object": ("PidRef", "CidRef", "Obj"), "locks-metadata": ("Meta",)}


def derive(prop, which, infos, root):
    sites = {}
    for o in infos:
        # lockset/<scenario>/<read|write> <Kind>
        _, scen, acc = o["name"].split("/", 2)
        mode, kind = acc.split(" ")
        if kind not in WHICH[which]:
            continue
        classes = frozenset(c for c in (o["detail"] or "").split(",") if c)
        sites.setdefault((scen, mode, kind), set()).add(classes)
    out = []

    def ob(name, ok, detail, site):
        out.append({"name": name, "status": "discharged" if ok else "refuted", "time": 0.0,
                    "detail": detail, "site": site, "props": [prop], "model": None, "path": [],
                    "job": ["derived", which]})
    for kind in WHICH[which]:
        writers = {k: v for k, v in sites.items() if k[1] == "write" and k[2] == kind}
        if not writers:
            continue
        common = None
        for k, sets in writers.items():
            for s in sets:
                g = set(s) & GUARD_CLASSES[kind]
                common = g if common is None else (common & g)
        desc = "; ".join(f"{k[0]}: {sorted(map(sorted, v))}" for k, v in sorted(writers.items()))
        ob(f"{prop}/one-guard/{kind}", bool(common),
           f"lock classes held at the writer sites of {kind}: {desc}", "lock discipline")
    bpath = os.path.join(root, "baseline_locksets.json")
    if os.path.exists(bpath):
        with open(bpath) as fh:
            base = json.load(fh)
        for key, want in sorted(base.get(which, {}).items()):
            scen, mode, kind = key.split("|")
            cur = sites.get((scen, mode, kind))
            if cur is None:
                continue        # the site no longer exists: nothing is claimed about it
            least = set.intersection(*[set(s) for s in cur])
            ob(f"{prop}/R-coverage/{kind}", set(want) <= least,
               f"{mode} of {kind} in '{scen}': baseline holds {sorted(want)}, now {sorted(least)}",
               scen)
    return out


def snapshot(infos_by_which):
    """The table written to baseline_locksets.json by tools/gen_baseline.py."""
    out = {}
    for which, infos in infos_by_which.items():
        sites = {}
        for o in infos:
            _, scen, acc = o["name"].split("/", 2)
            mode, kind = acc.split(" ")
            if kind not in WHICH[which]:
                continue
            classes = set(c for c in (o["detail"] or "").split(",") if c)
            key = f"{scen}|{mode}|{kind}"
            sites[key] = sorted(classes if key not in sites else set(sites[key]) & classes)
        out[which] = sites
    return out
