"""Library models, part 2: calls, methods, context managers, loop schemas."""
import ast
import hashlib
import z3
from . import sorts as T
from .values import *  # noqa
from .engine import (PyRaise, ReturnSig, BreakSig, ContinueSig, PathPruned, LemmaDone, mkexc,
                     LOCK_CLASSES)
from .lib import (Lib, TRUE, FALSE, fsize, sdir, ANCHOR_DIR, TMP_KIND, SHARD_KIND, MUTATING)

py_replace = z3.Function("py_replace", T.S, T.S, T.S, T.S)   # s.replace(x, y), uninterpreted
py_join = z3.Function("py_join", T.S, T.S, T.S)
py_int = z3.Function("py_int", T.S, T.I)        # int(s)
isintlit = z3.Function("isintlit", T.S, T.B)    # int(s) does not raise
int2str = z3.Function("int2str", T.I, T.S)
yaml_depth = z3.Function("yaml_depth", T.S, T.I)
yaml_width = z3.Function("yaml_width", T.S, T.I)
yaml_algo = z3.Function("yaml_algo", T.S, T.S)
yaml_ns = z3.Function("yaml_ns", T.S, T.S)
yaml_ok = z3.Function("yaml_ok", T.S, T.B)
yaml_dump = z3.Function("yaml_dump", T.I, T.I, T.S, T.S, T.S)
T.trusted("yaml", "yaml.safe_load(comment lines + yaml.dump(d)) == d for the five-key "
          "configuration dictionary (bounded native sweep in the thorough tier)")
T.trusted("int()", "int(s) for a str either raises ValueError or returns py_int(s); int(i) = i")

DATAONE = ["MD5", "SHA-1", "SHA-256", "SHA-384", "SHA-512"]


def _yaml_roundtrip(ax, t):
    """yaml.safe_load(<comment lines> + yaml.dump(d)) == d  (assumed; validated natively)."""
    ch = t.children()
    last = ch[-1]
    if not (z3.is_app(last) and last.decl().name() == "yaml_dump"):
        return
    for c in ch[:-1]:
        if z3.is_const(c) and c.decl().name() == "yaml_comment_block":
            continue     # the comment block _write_properties emits (checked on its real text)
        if not z3.is_string_value(c):
            return
        for line in T.zstr(c).splitlines():
            if line.strip() and not line.lstrip().startswith("#"):
                return
    d, w, ns, al = [last.arg(i) for i in range(4)]
    ax.out.append(z3.And(yaml_ok(t), yaml_depth(t) == d, yaml_width(t) == w, yaml_ns(t) == ns,
                         yaml_algo(t) == al))


T.YAML_HOOK.append(_yaml_roundtrip)


ALL_WS = frozenset(chr(i) for i in range(0x110000) if chr(i).isspace())


def cstr(v):
    if isinstance(v, VStr):
        return v.concrete()
    return None


class FullLib(Lib):
    # ==========================================================================================
    # events / primitives on the abstract file system
    # ==========================================================================================
    def isfile(self, it, p):
        p = self.as_path(it, p)
        if self.is_dir_path(p) and isinstance(p, VPath):
            return FALSE
        loc = self.path_loc(it, p)
        it.ctx.event("probe", loc=loc)
        return T.present(self.fs_get(it, loc))

    def exists(self, it, p):
        p = self.as_path(it, p)
        if isinstance(p, VPath) and self.is_dir_path(p):
            did = self.path_dir(it, p)
            it.ctx.event("probe-dir", dir=did)
            return self.dir_exists(it, did)
        return self.isfile(it, p)

    def remove(self, it, p):
        loc = self.path_loc(it, p)
        self.maybe_fault(it, "remove", loc)
        st = self.fs_get(it, loc)
        if not it.ctx.branch(T.present(st)):
            it.raise_("FileNotFoundError")
        self.fs_set(it, loc, T.Absent)
        it.ctx.event("remove", loc=loc, old=st)

    def move(self, it, src, dst):
        s, d = self.path_loc(it, src), self.path_loc(it, dst)
        self.maybe_fault(it, "move", d)
        sst = self.fs_get(it, s)
        if not it.ctx.branch(T.present(sst)):
            it.raise_("FileNotFoundError")
        if not it.ctx.branch(self.dir_exists(it, self.parent_dir_of_loc(d))):
            it.raise_("FileNotFoundError")
        if it.ctx.branch(s == d):
            return
        old = self.fs_get(it, d)
        self.fs_set(it, d, sst)
        self.fs_set(it, s, T.Absent)
        it.ctx.event("move", src=s, dst=d, content=sst, old=old,
                     src_open=self.open_write_handles(it, s))

    def open_write_handles(self, it, loc):
        hs = it.ctx.__dict__.setdefault("handles", [])
        return [h for h in hs if not h.f["closed"] and h.f["mode"] != "r"
                and h.f.get("loc") is not None and z3.is_true(z3.simplify(h.f["loc"] == loc))]

    def open(self, it, p, mode="r", **kw):
        m = cstr(mode) if isinstance(mode, V) else mode
        if m is None:
            raise Undecided("symbolic open mode")
        binary = "b" in m
        base = m.replace("b", "").replace("t", "")
        loc = self.path_loc(it, p)
        self.maybe_fault(it, "open-" + base, loc)
        st = self.fs_get(it, loc)
        if base in ("r", "r+"):
            if not it.ctx.branch(T.present(st)):
                it.raise_("FileNotFoundError")
            if base == "r+":
                it.ctx.event("open-r+", loc=loc)
            else:
                it.ctx.event("open-r", loc=loc)
        elif base in ("w", "a"):
            if not it.ctx.branch(self.dir_exists(it, self.parent_dir_of_loc(loc))):
                it.raise_("FileNotFoundError")
            if base == "w":
                self.fs_set(it, loc, T.Data(T.EMPTY))
            else:
                if it.ctx.branch(T.is_Absent(st)):
                    self.fs_set(it, loc, T.Data(T.EMPTY))
            it.ctx.event("open-" + base, loc=loc, old=st)
        else:
            raise Undecided(f"open mode {m}")
        h = VObj("file", loc=loc, mode=base, binary=binary, pos=z3.IntVal(0), closed=False,
                 namev=p if isinstance(p, VPath) else p, kind="real")
        if base == "a":
            h.f["pos"] = None
        it.ctx.__dict__.setdefault("handles", []).append(h)
        return h

    def mktemp(self, it, dirp):
        if dirp.anchor not in TMP_KIND or dirp.parts:
            if isinstance(dirp, VPath) and dirp.anchor in (A_OBJECTS, A_METADATA, A_CIDS, A_PIDS, A_REFS,
                                                          A_ROOT):
                # a temporary (half-written, unlocked, arbitrarily named) file inside a permanent
                # directory is visible to every listing and lookup of that directory
                it.ctx.fail("fs/temporary-files-only-in-tmp-areas",
                            f"a temporary file is created in the permanent directory {dirp}: the "
                            "delete-all listing and the layout see a half-written file that no "
                            "document lock protects", props=("C09", "C12", "C15"))
            raise Undecided(f"NamedTemporaryFile in {dirp}")
        area = TMP_KIND[dirp.anchor]
        self.maybe_fault(it, "mktemp", z3.IntVal(area))
        if not it.ctx.branch(self.dir_exists(it, ANCHOR_DIR[dirp.anchor])):
            it.raise_("FileNotFoundError")
        name = T.fresh_tmp(it.ctx.st.fs, z3.IntVal(area))
        loc = T.loc(area, name)
        self.fs_set(it, loc, T.Data(T.EMPTY))
        it.ctx.event("mktemp", loc=loc)
        h = VObj("file", loc=loc, mode="w", binary=True, pos=z3.IntVal(0), closed=False,
                 namev=VPath(dirp.anchor, (("str", name),), pathobj=False), kind="tmp")
        it.ctx.__dict__.setdefault("handles", []).append(h)
        return h

    def makedirs(self, it, p, exist_ok=False):
        did = self.path_dir(it, p)
        self.maybe_fault(it, "makedirs", did)
        if it.ctx.branch(self.dir_exists(it, did)):
            if exist_ok:
                return
            it.raise_("FileExistsError")
        it.ctx.st.dirs = z3.Store(it.ctx.st.dirs, did, TRUE)
        # ancestors (anchor directories) are created as well
        a = p.anchor
        while a in PARENT or a == A_ROOT:
            it.ctx.st.dirs = z3.Store(it.ctx.st.dirs, ANCHOR_DIR[a], TRUE)
            if a == A_ROOT:
                break
            a = PARENT[a]
        it.ctx.event("makedirs", dir=did)

    # ---- file handle methods ----------------------------------------------------------------
    def file_method(self, it, h, name, args, kwargs):
        ctx = it.ctx
        if name in ("__enter__",):
            return h
        if name == "close":
            return self.file_close(it, h)
        if h.f["closed"] and name in ("read", "write", "seek", "tell", "readlines", "truncate",
                                      "writelines", "fileno"):
            it.raise_("ValueError")
        if name == "fileno":
            return VInt(ctx.fresh("fd", T.I))
        if name == "tell":
            if h.f["pos"] is None:
                raise Undecided("tell on append handle")
            return VInt(h.f["pos"])
        if name == "seek":
            off = self.as_int(it, args[0]).term
            whence = 0
            if len(args) > 1 or "whence" in kwargs:
                w = args[1] if len(args) > 1 else kwargs["whence"]
                names = {"os.SEEK_SET": 0, "os.SEEK_CUR": 1, "os.SEEK_END": 2,
                         "io.SEEK_SET": 0, "io.SEEK_CUR": 1, "io.SEEK_END": 2}
                if isinstance(w, VExt) and w.name in names:
                    whence = names[w.name]
                elif isinstance(w, VInt) and z3.is_int_value(z3.simplify(w.term)):
                    whence = z3.simplify(w.term).as_long()
                else:
                    raise Undecided(f"seek with whence {w}")
            if whence != 0:
                if h.f["pos"] is None or not h.f["binary"]:
                    raise Undecided("relative seek on a text or append handle")
                base = h.f["pos"] if whence == 1 else z3.Length(self.handle_content(it, h))
                off = base + off
            if not z3.is_int_value(z3.simplify(off)) or z3.simplify(off).as_long() < 0:
                if ctx.branch(off < 0):
                    it.raise_("OSError")       # EINVAL: negative resulting position
            h.f["pos"] = off
            ctx.event("seek", handle=h, pos=off)
            return VInt(off)
        content = self.handle_content(it, h)
        if name == "read":
            if h.f["mode"] not in ("r", "r+"):
                it.raise_("OSError")
            self.maybe_fault(it, "read", h.f.get("loc"))
            pos = h.f["pos"]
            n = z3.Length(content)
            rest = z3.SubString(content, pos, n - pos)
            if args and not isinstance(args[0], VNone):
                k = z3.simplify(self.as_int(it, args[0]).term)
                if not (h.f["binary"] and z3.is_int_value(k) and k.as_long() >= 0):
                    raise Undecided("read(n) outside the stream schema")
                piece = z3.SubString(content, pos, k)     # clipped at the end of the file
                h.f["pos"] = pos + z3.Length(piece)
                return VBytes(piece)
            h.f["pos"] = n
            if h.f["binary"]:
                return VBytes(rest)
            if h.f.get("loc") is not None:
                st = self.fs_get(it, h.f["loc"])
                if not ctx.implied(pos == 0):
                    raise Undecided("text read at non-zero offset")
                return VStr(T.as_text(st))
            return VStr(rest)
        if name == "readlines":
            if h.f["binary"] or h.f.get("loc") is None:
                raise Undecided("readlines on binary/user stream")
            st = self.fs_get(it, h.f["loc"])
            if not ctx.implied(h.f["pos"] == 0):
                raise Undecided("readlines at non-zero offset")
            h.f["pos"] = ctx.fresh("eof", T.I)
            return VSymSeq("lines", m=T.as_lines(st), raw=True)
        if name == "write":
            return self.file_write(it, h, args[0])
        if name == "writelines":
            seq = args[0]
            if not (isinstance(seq, VSymSeq) and seq.what == "lines"):
                raise Undecided(f"writelines of {seq}")
            if h.f["mode"] == "w" and ctx.implied(h.f["pos"] == 0) and \
                    ctx.implied(T.as_text(self.fs_get(it, h.f["loc"])) == T.EMPTY):
                # a file just created / truncated by open(.., "w"): its content becomes the lines
                self.maybe_fault(it, "write", h.f["loc"])
                loc = h.f["loc"]
                old = self.fs_get(it, loc)
                for ln in seq.info.get("appended", []):
                    ctx.oblige("refs/line-is-wsfree", T.wsfree(ln), props=("C18", "C05"))
                self.fs_set(it, loc, T.LinesF(seq.info["m"]))
                h.f["pos"] = ctx.fresh("pos", T.I)
                ctx.event("write", loc=loc, old=old, new=T.LinesF(seq.info["m"]))
                return NONE
            if not (h.f["mode"] == "r+" and ctx.implied(h.f["pos"] == 0)):
                raise Undecided("writelines not at offset 0 of an r+ handle")
            self.maybe_fault(it, "write", h.f["loc"])
            loc = h.f["loc"]
            old = self.fs_get(it, loc)
            # in-place overwrite from offset 0: the new lines followed by whatever tail of the old
            # content is longer than them (removed by the truncate() that must follow)
            newm = seq.info["m"]
            g = ctx.fresh("leftover", T.Lines)
            xm = z3.Const("x!mid", T.S)
            mid = z3.Lambda([xm], z3.If(z3.Select(g, xm) >= 0,
                                        z3.Select(newm, xm) + z3.Select(g, xm),
                                        z3.Select(newm, xm)))
            self.fs_set(it, loc, T.LinesF(mid))
            h.f["pending_truncate"] = seq.info["m"]
            h.f["pos"] = ctx.fresh("pos", T.I)
            ctx.event("write", loc=loc, inplace=True, old=old, new=T.LinesF(mid))
            return NONE
        if name == "truncate" and "pending_truncate_text" in h.f:
            self.maybe_fault(it, "truncate", h.f["loc"])
            loc = h.f["loc"]
            old = self.fs_get(it, loc)
            txt = h.f.pop("pending_truncate_text")
            # a text that is empty is the empty line file; otherwise its lines are whatever the
            # text parses to
            new = z3.If(txt == T.EMPTY, T.LinesF(T.NOLINES), T.Data(txt))
            self.fs_set(it, loc, new)
            ctx.event("truncate", loc=loc, old=old, new=new)
            return NONE
        if name == "truncate":
            if "pending_truncate" not in h.f:
                raise Undecided("truncate without preceding writelines")
            self.maybe_fault(it, "truncate", h.f["loc"])
            loc = h.f["loc"]
            old = self.fs_get(it, loc)
            self.fs_set(it, loc, T.LinesF(h.f.pop("pending_truncate")))
            ctx.event("truncate", loc=loc, old=old, new=self.fs_get(it, loc))
            return NONE
        if name == "flush":
            return NONE
        if name == "__exit__":
            return self.file_close(it, h)
        raise Undecided(f"file method {name}")

    def handle_content(self, it, h):
        if h.f.get("loc") is not None:
            return T.as_text(self.fs_get(it, h.f["loc"]))
        return h.f["content"]

    def file_write(self, it, h, data):
        ctx = it.ctx
        if h.f["mode"] == "r":
            it.raise_("OSError")
        loc = h.f.get("loc")
        if loc is None:
            raise Undecided("write to a caller stream")
        self.maybe_fault(it, "write", loc)
        st = self.fs_get(it, loc)
        if h.f["binary"]:
            if not isinstance(data, VBytes):
                it.raise_("TypeError")
            if h.f["mode"] == "r+":
                # a binary write at the end of the file appends (any other offset would overwrite
                # in place, which only the text-mode rewrite schema models)
                if not ctx.implied(h.f["pos"] == z3.Length(T.as_text(st))):
                    raise Undecided("binary write to an r+ handle not at the end of the file")
                b = data.term
                if z3.is_app(b) and b.decl().name() == "utf8":
                    txt = b.arg(0)
                elif z3.is_string_value(b) and all(ord(c) < 128 for c in T.zstr(b)):
                    txt = b
                else:
                    raise Undecided("binary write of non-text bytes to an r+ handle")
                new = self._appended(it, st, txt)
                self.fs_set(it, loc, new)
                h.f["pos"] = z3.Length(T.as_text(new))
                ctx.event("write", loc=loc, old=st, new=new)
                return VInt(ctx.fresh("nwritten", T.I))
            if h.f["mode"] not in ("w", "a"):
                raise Undecided("binary write to r+ handle")
            new = T.Data(z3.Concat(T.as_text(st), data.term))
        else:
            s = self.need_str(it, data, "TypeError").term
            if h.f["mode"] == "r+":
                if not ctx.implied(h.f["pos"] == 0):
                    raise Undecided("text write to an r+ handle not at offset 0")
                # overwrite from offset 0: the new text followed by the tail of the old content
                # until truncate() removes it
                tail = ctx.fresh("oldtail", T.S)
                self.fs_set(it, loc, T.Data(z3.Concat(s, tail)))
                h.f["pending_truncate_text"] = s
                h.f["pos"] = ctx.fresh("pos", T.I)
                ctx.event("write", loc=loc, inplace=True, old=st, new=T.Data(z3.Concat(s, tail)))
                return VInt(ctx.fresh("nwritten", T.I))
            if h.f["mode"] not in ("w", "a"):
                raise Undecided("text write to r+ handle")
            new = self._appended(it, st, s)
        self.fs_set(it, loc, new)
        ctx.event("write", loc=loc, old=st, new=new)
        return VInt(ctx.fresh("nwritten", T.I))

    def _appended(self, it, st, s):
        """File state after appending text s."""
        ctx = it.ctx
        # a write of  <identifier> + "\n"  appends one line to a line file
        line = _line_of(s)
        if line is not None:
            ctx.oblige("refs/line-is-wsfree", T.wsfree(line), props=("C18", "C05"))
            m = T.as_lines(st)
            return T.LinesF(z3.Store(m, line, z3.Select(m, line) + 1))
        if not ctx.implied(z3.Or(T.is_Absent(st), T.is_Data(st))):
            raise Undecided("raw text appended to a line file")
        return T.Data(z3.Concat(T.as_text(st), s))

    def file_close(self, it, h):
        if h.f["closed"]:
            return NONE
        h.f["closed"] = True
        it.ctx.event("close", handle=h)
        return NONE

    # ==========================================================================================
    # library calls
    # ==========================================================================================
    def call(self, it, name, args, kwargs):
        if name.startswith("logging.") and name.split(".")[-1] in (
                "debug", "info", "warning", "error", "critical", "exception", "log"):
            return NONE      # a logging function reached through a variable (see DESIGN 2.1)
        m = getattr(self, "c_" + name.replace(".", "_"), None)
        if m is None:
            raise Undecided(f"library call {name} is not modelled")
        return m(it, *args, **kwargs)

    # ---- builtins
    def c_isinstance(self, it, x, cls):
        names = [c.name for c in cls.items] if isinstance(cls, VTuple) else [cls.name]
        return VBool(z3.Or(FALSE, *[self._isinst(it, x, n) for n in names]))

    def _isinst(self, it, x, n):
        n = n[6:] if n.startswith("class:") else n
        if isinstance(x, VDyn):
            tagmap = {"str": [T_STR], "int": [T_INT, T_BOOL], "bool": [T_BOOL]}
            return z3.Or(FALSE, *[x.tag == t for t in tagmap.get(n, []) if t in x.tags])
        table = {
            "str": lambda: isinstance(x, VStr) or (isinstance(x, VPath) and not x.pathobj),
            "bytes": lambda: isinstance(x, VBytes),
            "int": lambda: isinstance(x, (VInt, VBool)),
            "bool": lambda: isinstance(x, VBool),
            "dict": lambda: isinstance(x, VDict),
            "list": lambda: isinstance(x, VList) and x.kind == "list",
            "Path": lambda: isinstance(x, VPath) and x.pathobj,
            "io.BufferedIOBase": lambda: isinstance(x, VObj) and x.cls == "file" and x.f["binary"],
            "io.BufferedReader": lambda: isinstance(x, VObj) and x.cls == "file" and x.f["binary"]
            and not x.f.get("noname"),
            "ObjectMetadata": lambda: isinstance(x, VObj) and x.cls == "ObjectMetadata",
            "Exception": lambda: isinstance(x, VObj) and x.cls in EXC_PARENT,
        }
        if n not in table:
            if n in EXC_PARENT:
                return z3.BoolVal(isinstance(x, VObj) and x.cls in EXC_PARENT and is_subclass(x.cls, n))
            raise Undecided(f"isinstance(.., {n})")
        return z3.BoolVal(bool(table[n]()))

    def c_unicodedata_normalize(self, it, form, x):
        return VStr(T.uni_normalize(self.need_str(it, form, "TypeError").term,
                                    self.need_str(it, x, "TypeError").term))

    def c_len(self, it, x):
        if isinstance(x, (VStr, VBytes)):
            return VInt(z3.Length(x.term))
        if isinstance(x, VList) and all(z3.is_true(g) for g in x.guards):
            return VInt(len(x.items))
        if isinstance(x, VTuple):
            return VInt(len(x.items))
        if isinstance(x, VSymSeq) and x.what == "lines":
            return VInt(T.card(x.info["m"]))
        if isinstance(x, VDyn):
            return VInt(z3.Length(self.need_str(it, x, "TypeError").term))
        raise Undecided(f"len({x})")

    def c_int(self, it, x):
        if isinstance(x, VInt):
            return x
        if isinstance(x, VBool):
            return self.as_int(it, x)
        if isinstance(x, VNone):
            it.raise_("TypeError")
        if isinstance(x, VDyn):
            k = it.ctx.choose([x.tag == T_INT, x.tag == T_BOOL, x.tag == T_STR, x.tag == T_NONE,
                               x.tag == T_OTHER])
            if k == 0:
                return VInt(x.i)
            if k == 1:
                return VInt(z3.If(x.b, 1, 0))
            if k == 2:
                x = VStr(x.s)
            elif k == 3:
                it.raise_("TypeError")
            else:
                if it.ctx.branch(z3.Bool(x.name + "!int-convertible")):
                    return VInt(z3.Int(x.name + "!int-value"))
                it.raise_("TypeError")
        if isinstance(x, VStr):
            if it.ctx.branch(isintlit(x.term)):
                return VInt(py_int(x.term))
            it.raise_("ValueError")
        raise Undecided(f"int({x})")

    def c_str(self, it, x=None):
        if x is None:
            return VStr("")
        if isinstance(x, VStr):
            return x
        if isinstance(x, VPath):
            return x.with_(pathobj=False)
        if isinstance(x, VInt):
            return VStr(int2str(x.term))
        if isinstance(x, (VOpaque, VObj, VNone, VBool, VList, VDict, VTuple)):
            return VOpaque("str()")
        if isinstance(x, VDyn):
            if it.ctx.implied(x.tag == T_STR):
                return VStr(x.s)
            if set(x.tags) <= {T_NONE, T_STR, T_INT}:
                return VStr(z3.If(x.tag == T_STR, x.s,
                                  z3.If(x.tag == T_INT, int2str(x.i), z3.StringVal("None"))))
            return VOpaque("str()")
        raise Undecided(f"str({x})")

    def c_repr(self, it, x):
        return VOpaque("repr")

    def c_bool(self, it, x=None):
        return VBool(FALSE if x is None else self.truth(it, x))

    def c_type(self, it, x):
        return VOpaque("type")

    def c_print(self, it, *a, **k):
        return NONE

    def c_bytes(self, it, x, enc=None):
        s = self.need_str(it, x, "TypeError")
        return VBytes(T.utf8(s.term))

    def c_list(self, it, x=None):
        if x is None:
            return VList([])
        if isinstance(x, VList):
            return VList(list(x.items), list(x.guards))
        if isinstance(x, VTuple):
            return VList(list(x.items))
        raise Undecided(f"list({x})")

    def c_tuple(self, it, x=None):
        return VTuple(self.iter_concrete(it, x) if x is not None else [])

    def c_set(self, it, x=None):
        if x is None:
            return VList([], kind="set")
        if isinstance(x, VStr) and x.concrete() is not None:
            return VList([VStr(c) for c in sorted(set(x.concrete()))], kind="set")
        return self.make_set(it, x)

    def c_frozenset(self, it, x=None):
        r = self.c_set(it, x)
        return VList(list(r.items), list(r.guards), kind="frozenset")

    def charset_hits(self, it, cs, s):
        """any(ch in cs for ch in s) for a concrete set of characters cs."""
        chars = []
        for g, e in zip(cs.guards, cs.items):
            c = e.concrete() if isinstance(e, VStr) else None
            if c is None or len(c) != 1 or not z3.is_true(g):
                raise Undecided("character test against a set that is not a set of characters")
            chars.append(c)
        chars = frozenset(chars)
        st = self.need_str(it, s, "TypeError").term
        if chars == ALL_WS:
            return T.hasws(st)
        key = "anychar_" + hashlib.sha256("".join(sorted(chars)).encode()).hexdigest()[:10]
        pred = z3.Function(key, T.S, T.B)(st)
        if chars <= ALL_WS:
            it.ctx.assume(z3.Implies(pred, T.hasws(st)))    # every listed character is whitespace
        if z3.is_string_value(st):
            it.ctx.assume(pred == z3.BoolVal(any(c in chars for c in T.zstr(st))))
        it.ctx.assume(z3.Implies(st == T.EMPTY, z3.Not(pred)))
        return pred

    def c_zip(self, it, a, b):
        if isinstance(a, VList) and isinstance(b, VList) and len(a.items) == len(b.items):
            # element i of both lists is present under the same guard (b was built from a)
            for ga, gb in zip(a.guards, b.guards):
                if not z3.is_true(z3.simplify(ga == gb)):
                    raise Undecided("zip of lists with different guards")
            return VObj("zip", a=a, b=b)
        raise Undecided(f"zip({a}, {b})")

    def c_dict(self, it, x=None):
        if x is None:
            return VDict([])
        if isinstance(x, VObj) and x.cls == "zip":
            a, b = x.f["a"], x.f["b"]
            return VDict([[g, k, v] for g, k, v in zip(a.guards, a.items, b.items)])
        if isinstance(x, VDict):
            return VDict([list(e) for e in x.entries])
        raise Undecided(f"dict({x})")

    def c_any(self, it, g):
        if isinstance(g, VObj) and g.cls == "genexp":
            node, env = g.f["node"], g.f["env"]
            gen = node.generators[0]
            if len(node.generators) != 1 or gen.ifs:
                raise Undecided("any() over a filtered/nested generator")
            src = it.eval(gen.iter, env)
            if isinstance(src, VObj) and src.cls == "file" and not src.f["binary"]:
                return self.any_line(it, node, gen, src, env)
            # schema: any(ch.isspace() for ch in <str>)
            if isinstance(src, (VStr, VDyn)):
                s = self.need_str(it, src, "TypeError")
                if _is_char_pred(node.elt, gen.target, "isspace"):
                    return VBool(T.hasws(s.term))
                raise Undecided("any() over characters with an unknown predicate")
            from .interp import Env
            for x in self.iter_concrete(it, src):
                sub = Env(env)
                it.assign(gen.target, x, sub)
                if it.ctx.branch(it.truth(it.eval(node.elt, sub))):
                    return VBool(True)
            return VBool(False)
        raise Undecided(f"any({g})")

    def c_enumerate(self, it, x, start=None):
        items = self.iter_concrete(it, x)
        k = 0 if start is None else z3.simplify(self.as_int(it, start).term).as_long()
        return VList([VTuple([VInt(k + i), v]) for i, v in enumerate(items)])

    def c_sum(self, it, g):
        """sum(1 for ch in <str> if ch.isdigit())  ->  ndigits(<str>)"""
        if isinstance(g, VObj) and g.cls == "genexp":
            node, env = g.f["node"], g.f["env"]
            gen = node.generators[0]
            src = it.eval(gen.iter, env)
            if (len(node.generators) == 1 and isinstance(src, (VStr, VDyn)) and len(gen.ifs) == 1
                    and _is_char_pred(gen.ifs[0], gen.target, "isdigit")
                    and isinstance(node.elt, ast.Constant) and node.elt.value == 1):
                return VInt(T.ndigits(self.need_str(it, src, "TypeError").term))
        raise Undecided("sum() outside the character-count schema")

    def c_all(self, it, g):
        if isinstance(g, VObj) and g.cls == "genexp":
            node, env = g.f["node"], g.f["env"]
            gen = node.generators[0]
            if len(node.generators) == 1 and not gen.ifs:
                src = it.eval(gen.iter, env)
                from .interp import Env
                if isinstance(src, (VList, VTuple)):
                    for x in self.iter_concrete(it, src):
                        sub = Env(env)
                        it.assign(gen.target, x, sub)
                        if not it.ctx.branch(it.truth(it.eval(node.elt, sub))):
                            return VBool(False)
                    return VBool(True)
        raise Undecided("all() over a symbolic iterable")

    def any_line(self, it, node, gen, h, env):
        """any(<pure cond(line)> for line in <text file>): exists a line satisfying the condition"""
        from .interp import Env
        ctx = it.ctx
        if h.f.get("loc") is None or not ctx.implied(h.f["pos"] == 0):
            raise Undecided("line iteration not from the start of a store file")
        self.maybe_fault(it, "read", h.f["loc"])
        m = T.as_lines(self.fs_get(it, h.f["loc"]))
        x = ctx.fresh("line", T.S)
        lv = VStr(z3.Concat(x, z3.StringVal("\n")))
        lv.line_of = x
        sub = Env(env)
        it.assign(gen.target, lv, sub)
        ctx.pure += 1
        try:
            c = it.truth(it.eval(node.elt, sub))
        finally:
            ctx.pure -= 1
        h.f["pos"] = ctx.fresh("eof", T.I)
        return VBool(_exists_line(m, x, c))

    def c_range(self, it, *a):
        vals = [z3.simplify(self.as_int(it, x).term) for x in a]
        if all(z3.is_int_value(v) for v in vals):
            return VList([VInt(i) for i in range(*[v.as_long() for v in vals])])
        if len(vals) == 1:
            return VSymSeq("range", n=vals[0])
        raise Undecided("symbolic range")

    def c_hasattr(self, it, obj, name):
        return self.hasattr(it, obj, cstr(name))

    def c_getattr(self, it, obj, name, default=None):
        n = cstr(name)
        if isinstance(obj, VObj) and obj.cls == "namespace" and n not in obj.f:
            it.raise_("AttributeError")
        return self.getattr(it, obj, n)

    # ---- os / shutil / io
    def c_os_path_isfile(self, it, p):
        return VBool(self.isfile(it, p))

    def c_os_path_exists(self, it, p):
        return VBool(self.exists(it, p))

    def c_os_path_isdir(self, it, p):
        p = self.as_path(it, p)
        if isinstance(p, VPath) and self.is_dir_path(p):
            return VBool(self.exists(it, p))
        raise Undecided(f"isdir({p})")

    def c_os_path_getsize(self, it, p):
        loc = self.path_loc(it, p)
        st = self.fs_get(it, loc)
        it.ctx.event("probe", loc=loc)
        if not it.ctx.branch(T.present(st)):
            it.raise_("FileNotFoundError")
        return VInt(fsize(st))

    def c_os_path_join(self, it, base, *rest):
        base = self.as_path(it, base)
        if isinstance(base, (VStr, VDyn)):
            s = self.need_str(it, base, "TypeError")
            base = VPath(A_EXT, (("str", s.term),), pathobj=False)
        if not isinstance(base, VPath):
            raise Undecided(f"os.path.join({base}, ...)")
        return self.join(it, base, list(rest)).with_(pathobj=False)

    def c_os_path_dirname(self, it, p):
        return self.dirname(it, p).with_(pathobj=False)

    def c_os_path_basename(self, it, p):
        return self.basename(it, p)

    def c_os_remove(self, it, p):
        self.remove(it, p)
        return NONE

    def c_os_makedirs(self, it, p, mode=None, exist_ok=None):
        self.makedirs(it, p, exist_ok=bool(exist_ok is not None and
                                          z3.is_true(z3.simplify(self.truth(it, exist_ok)))))
        return NONE

    def c_os_listdir(self, it, p):
        if isinstance(p, VPath) and p.anchor == A_METADATA and [x[0] for x in p.parts] == ["shard"]:
            self.maybe_fault(it, "listdir", p.parts[0][1])
            it.ctx.event("listdir", key=p.parts[0][1])
            return VSymSeq("listdir", d=p.parts[0][1], fs=it.ctx.st.fs,
                           held=list(it.ctx.st.held))
        raise Undecided(f"listdir({p})")

    def c_os_stat(self, it, p):
        # a store file: existence and size come from the abstract file system
        q = self.as_path(it, p)
        if isinstance(q, VPath) and not self.is_dir_path(q) and q.anchor != A_EXT:
            loc = self.path_loc(it, q)
            st = self.fs_get(it, loc)
            it.ctx.event("probe", loc=loc)
            if not it.ctx.branch(T.present(st)):
                it.raise_("FileNotFoundError")
            blk = it.ctx.fresh("blksize", T.I)
            it.ctx.assume(blk >= 1)
            return VObj("stat_result", blk=VInt(blk), st_size=VInt(fsize(st)))
        # a caller-supplied file: a stat failure of any kind is an OSError subclass
        if it.ctx.__dict__.get("stat_always_ok") or it.ctx.branch(it.ctx.fresh("stat_ok", T.B)):
            blk = it.ctx.fresh("blksize", T.I)
            it.ctx.assume(blk >= 1)
            size = it.ctx.fresh("st_size", T.I)
            it.ctx.assume(size >= 0)
            return VObj("stat_result", blk=VInt(blk), st_size=VInt(size))
        it.raise_("OSError")

    def c_os_umask(self, it, m):
        return VInt(it.ctx.fresh("umask", T.I))

    def c_os_chmod(self, it, p, m):
        return NONE

    def c_os_getenv(self, it, name, default=None):
        n = cstr(name)
        env = it.ctx.__dict__.setdefault("environ", {})
        if n not in env:
            v = VDyn("env_" + n, (T_NONE, T_STR))
            it.ctx.assume(v.domain())
            env[n] = v
        v = env[n]
        if it.ctx.branch(v.tag == T_NONE):
            return default if default is not None else NONE
        return VStr(v.s)

    def c_shutil_move(self, it, src, dst):
        self.move(it, src, dst)
        return dst

    def c_shutil_copyfile(self, it, src, dst, **kw):
        """copyfile = open(dst, 'wb') (truncating it), write the source's bytes, close."""
        s_loc = self.path_loc(it, src)
        self.maybe_fault(it, "open-r", s_loc)
        sst = self.fs_get(it, s_loc)
        if not it.ctx.branch(T.present(sst)):
            it.raise_("FileNotFoundError")
        h = self.open(it, dst, "wb")
        self.file_write(it, h, VBytes(T.as_text(sst)))
        self.file_close(it, h)
        return dst

    c_shutil_copy = c_shutil_copyfile
    c_shutil_copy2 = c_shutil_copyfile

    def c_os_rmdir(self, it, p):
        """Removing a directory: the layout relies on directories never going away (a store /
        tag / metadata call creates the directory and then renames into it without holding any
        lock on the directory), so this is reported as a discipline violation."""
        did = self.path_dir(it, p)
        it.ctx.fail("fs/directories-are-never-removed",
                    "the code removes a store directory; concurrent calls create a directory and "
                    "then rename a file into it without a lock on the directory",
                    props=("C12", "C07", "C10"))
        if it.ctx.branch(it.ctx.fresh("rmdir_ok", T.B)):
            it.ctx.st.dirs = z3.Store(it.ctx.st.dirs, did, FALSE)
            it.ctx.event("rmdir", dir=did)
            return NONE
        it.raise_("OSError")

    c_os_removedirs = c_os_rmdir
    c_shutil_rmtree = c_os_rmdir

    def c_os_rename(self, it, src, dst):
        self.move(it, src, dst)
        return NONE

    c_os_replace = c_os_rename

    def c_os_unlink(self, it, p):
        self.remove(it, p)
        return NONE

    def c_open(self, it, p, mode=None, encoding=None, **kw):
        return self.open(it, p, mode if mode is not None else "r")

    c_io_open = c_open

    def c_NamedTemporaryFile(self, it, dir=None, delete=None, **kw):
        return self.mktemp(it, dir)

    def c_closing(self, it, x):
        return VObj("closing", thing=x)

    def c_Path(self, it, *parts):
        if not parts:
            raise Undecided("Path()")
        first = self.as_path(it, parts[0])
        if isinstance(first, VPath):
            base = first
        elif isinstance(first, VShard):
            base = VPath(A_REL, (("shard", first.key),))
        elif isinstance(first, (VStr, VDyn)):
            s = self.need_str(it, first, "TypeError")
            base = VPath(A_EXT, (("str", s.term),))
        else:
            raise Undecided(f"Path({first})")
        return self.join(it, base, list(parts[1:])).with_(pathobj=True)

    def c_hashlib_new(self, it, alg, data=None, **kw):
        a = self.need_str(it, alg, "TypeError")
        ok = z3.Or(*[a.term == z3.StringVal(x) for x in T.SUPPORTED12])
        if not it.ctx.branch(ok):
            it.raise_("ValueError")
        h = VObj("hasher", alg=a.term, state=T.EMPTY)
        data = kw.get("data", data)
        if data is not None and not isinstance(data, VNone):
            if not isinstance(data, VBytes):      # hashlib.new(name, data): data must be bytes-like
                it.raise_("TypeError")
            h.f["state"] = data.term
        return h

    def c_atexit_register(self, it, f):
        return f

    def c_inspect_stack(self, it):
        return VList([VObj("frameinfo"), VObj("frameinfo")])

    def c_fcntl_flock(self, it, fd, op):
        self.maybe_fault(it, "flock", None)
        return NONE

    def c_yaml_safe_load(self, it, fh):
        if not (isinstance(fh, VObj) and fh.cls == "file" and fh.f.get("loc") is not None):
            raise Undecided("yaml.safe_load of a non-file")
        s = T.as_text(self.fs_get(it, fh.f["loc"]))
        if not it.ctx.branch(yaml_ok(s)):
            it.raise_("yaml.YAMLError")
        return VDict([
            [TRUE, VStr("store_depth"), VInt(yaml_depth(s))],
            [TRUE, VStr("store_width"), VInt(yaml_width(s))],
            [TRUE, VStr("store_metadata_namespace"), VStr(yaml_ns(s))],
            [TRUE, VStr("store_algorithm"), VStr(yaml_algo(s))],
            [TRUE, VStr("store_default_algo_list"), VList([VStr(x) for x in DATAONE])],
        ])

    def c_yaml_dump(self, it, d, sort_keys=None):
        want = ["store_depth", "store_width", "store_metadata_namespace", "store_algorithm",
                "store_default_algo_list"]
        keys = [cstr(k) for _, k, _ in d.entries]
        if keys != want:
            it.ctx.fail("yaml/documented-keys", f"hashstore.yaml keys {keys} != {want}",
                        props=("C15",))
            raise Undecided("yaml.dump of a dictionary with other keys")
        vals = {cstr(k): v for _, k, v in d.entries}
        lst = vals["store_default_algo_list"]
        if not (isinstance(lst, VList) and [cstr(x) for x in lst.items] == DATAONE):
            it.ctx.fail("yaml/default-algo-list", "store_default_algo_list differs", props=("C15",))
            raise Undecided("yaml.dump with another default list")
        dep, wid = self.as_int(it, vals["store_depth"]), self.as_int(it, vals["store_width"])
        ns = self.need_str(it, vals["store_metadata_namespace"], "TypeError")
        al = self.need_str(it, vals["store_algorithm"], "TypeError")
        return VStr(yaml_dump(dep.term, wid.term, ns.term, al.term))

    # ---- argparse / factory (client) -----------------------------------------------------------
    def c_ArgumentParser(self, it, **kw):
        return VObj("argparser", options=VList([]))

    def c_HashStoreFactory(self, it):
        return VObj("factory")

    def c_threading_Lock(self, it):
        return VObj("lock", flavor="th")

    def c_multiprocessing_Lock(self, it):
        return VObj("lock", flavor="mp")

    def c_threading_Condition(self, it, lock=None):
        return VObj("rawcondition", flavor="th", lock=lock)

    def c_multiprocessing_Condition(self, it, lock=None):
        return VObj("rawcondition", flavor="mp", lock=lock)

    def c_multiprocessing_Manager(self, it):
        return VObj("manager")

    # ==========================================================================================
    # methods on values
    # ==========================================================================================
    def method(self, it, obj, name, args, kwargs):
        if isinstance(obj, VObj) and obj.cls == "logger" and name in (
                "debug", "info", "warning", "error", "critical", "exception", "log"):
            return NONE
        if isinstance(obj, (VStr, VDyn, VOpaque)):
            return self.str_method(it, obj, name, args)
        if isinstance(obj, VList):
            if name == "append" and obj.kind == "list":
                obj.items.append(args[0])
                obj.guards.append(TRUE)
                return NONE
            if name == "extend":
                for x in self.iter_concrete(it, args[0]):
                    obj.items.append(x)
                    obj.guards.append(TRUE)
                return NONE
            if name == "isdisjoint" and obj.kind in ("set", "frozenset") and \
                    isinstance(args[0], (VStr, VDyn)):
                return VBool(z3.Not(self.charset_hits(it, obj, args[0])))
            if obj.kind == "frozenset" and name in ("append", "extend", "add"):
                it.raise_("AttributeError")
            raise Undecided(f"list.{name}")
        if isinstance(obj, VSymSeq) and obj.what == "lines" and name == "append":
            line = _line_of(self.need_str(it, args[0], "TypeError").term)
            if line is None or not obj.info.get("raw"):
                raise Undecided("append of something that is not <identifier> + newline to the lines of a file")
            m = obj.info["m"]
            obj.info["m"] = z3.Store(m, line, z3.Select(m, line) + 1)
            obj.info["appended"] = obj.info.get("appended", []) + [line]
            return NONE
        if isinstance(obj, VDict):
            if name == "get":
                r = self.dict_lookup(it, obj, args[0])
                if r is not None:
                    return r
                return args[1] if len(args) > 1 else NONE
            if name == "keys":
                return VList([k for _, k, _ in obj.entries], [g for g, _, _ in obj.entries])
            raise Undecided(f"dict.{name}")
        if isinstance(obj, VPath):
            return self.path_method(it, obj, name, args, kwargs)
        if isinstance(obj, VObj):
            c = obj.cls
            if c == "file":
                return self.file_method(it, obj, name, args, kwargs)
            if c == "logger":
                return NONE
            if c == "hasher":
                if name == "update":
                    b = args[0]
                    if not isinstance(b, VBytes):
                        it.raise_("TypeError")
                    obj.f["state"] = z3.Concat(obj.f["state"], b.term)
                    return NONE
                if name == "hexdigest":
                    return VStr(T.Hd(obj.f["alg"], obj.f["state"]))
            if c == "condition":
                return self.cond_method(it, obj, name)
            if c == "locklist":
                return self.locklist_method(it, obj, name, args)
            if c == "argparser":
                if name == "add_argument":
                    flags = [cstr(a) for a in args]
                    dest = cstr(kwargs["dest"]) if "dest" in kwargs else flags[0].lstrip("-")
                    act = cstr(kwargs["action"]) if "action" in kwargs else "store"
                    typ = kwargs.get("type")
                    obj.f["options"].items.append(VObj(
                        "option", flags=flags, dest=dest, action=act,
                        type=(typ.name if isinstance(typ, VExt) else None),
                        default=kwargs.get("default", NONE)))
                    obj.f["options"].guards.append(TRUE)
                    return NONE
                if name == "parse_args":
                    ns = VObj("namespace")
                    for o in obj.f["options"].items:
                        d = o.f["dest"]
                        if o.f["action"] == "store_true":
                            ns.f[d] = VBool(z3.Bool("opt_" + d))
                            if d == "knbvm_flag":
                                # the Metacat test driver is outside C20 (stated precondition)
                                it.ctx.assume(z3.Not(ns.f[d].term))
                        elif o.f["action"] == "store":
                            positional = not o.f["flags"][0].startswith("-")
                            if not isinstance(o.f["default"], VNone):
                                # an option with a default is never None: it is the given value
                                # or the default (any value of the type covers both)
                                if not isinstance(o.f["default"], (VStr, VInt)):
                                    raise Undecided("argparse default of an unmodelled type")
                                positional = True
                            if o.f["type"] == "int":
                                tags = (T_INT,) if positional else (T_NONE, T_INT)
                            elif o.f["type"] is None:
                                tags = (T_STR,) if positional else (T_NONE, T_STR)
                            else:
                                raise Undecided(f"argparse type={o.f['type']}")
                            v = VDyn("opt_" + d, tags)
                            it.ctx.assume(v.domain())
                            if not isinstance(o.f["default"], VNone):
                                # ghost: was the option on the command line?  if not, the value
                                # is the declared default
                                v.given = z3.Bool("given_" + d)
                                dv = o.f["default"]
                                it.ctx.assume(z3.Implies(z3.Not(v.given),
                                                         (v.s == dv.term) if isinstance(dv, VStr)
                                                         else (v.i == dv.term)))
                            ns.f[d] = v
                        else:
                            raise Undecided(f"argparse action {o.f['action']}")
                    it.ctx.namespace = ns
                    return ns
            if c == "factory" and name == "get_hashstore":
                api = VObj("api", calls=VList([]), properties=args[2], module=args[0], clsname=args[1])
                it.ctx.__dict__.setdefault("apis", []).append(api)
                return api
            if c == "api":
                obj.f["calls"].items.append(VObj("apicall", name=name, args=VList(list(args)),
                                                 kwargs=VDict([[TRUE, VStr(k), v]
                                                               for k, v in kwargs.items()])))
                obj.f["calls"].guards.append(TRUE)
                return VObj("apiresult", call=name)
            if c == "apiresult":
                return VObj("apiresult", call=obj.f["call"] + "." + name)
            if c == "manager" and name == "list":
                return VObj("rawlist", flavor="mp")
            if c == "rawlist":
                raise Undecided("operation on an unregistered multiprocessing list")
            if c == "symdict" and name == "get":
                k = self.need_str(it, args[0], "TypeError")
                if it.ctx.branch(obj.f["fn_has"](k.term)):
                    return obj.f["fn_get"](k.term)
                return args[1] if len(args) > 1 else NONE
            if c == "closing":
                pass
        if isinstance(obj, VNone):
            it.raise_("AttributeError")
        raise Undecided(f"method {name} on {obj}")

    def approx(self, it, why):
        """The path now depends on an over-approximated operation (an uninterpreted stand-in for
        a library function the engine has no exact model of): a refutation found on it must be
        confirmed natively, otherwise the run is undecided (never a violation)."""
        it.ctx.__dict__.setdefault("approx_ops", []).append(why)

    def str_method(self, it, obj, name, args):
        if isinstance(obj, VOpaque):
            self.approx(it, f"str.{name} on a message string")
            return VStr(it.ctx.fresh("opaque_str", T.S))
        s = self.need_str(it, obj, "AttributeError").term
        if name == "strip" and not args:
            return VStr(T.strip(s))
        if name == "lower" and not args:
            return VStr(T.lower(s))
        if name == "replace" and len(args) == 2:
            a, b = cstr(args[0]), cstr(args[1])
            tab = {("-", "_"): T.dash2us, ("-", ""): T.rm_dash, ("_", ""): T.rm_us}
            if (a, b) in tab:
                return VStr(tab[(a, b)](s))
            x = self.need_str(it, args[0], "TypeError").term
            y = self.need_str(it, args[1], "TypeError").term
            self.approx(it, "str.replace with a symbolic pattern")
            return VStr(py_replace(s, x, y))
        if name == "startswith":
            return VBool(z3.PrefixOf(self.need_str(it, args[0], "TypeError").term, s))
        if name == "endswith":
            return VBool(z3.SuffixOf(self.need_str(it, args[0], "TypeError").term, s))
        if name == "encode":
            return VBytes(T.utf8(s))
        if name == "join":
            seq = args[0]
            if isinstance(seq, VSymSeq) and seq.what == "lines":
                self.approx(it, "str.join over the lines of a file")
                return VStr(py_join(s, T.rawOf(seq.info["m"])))
            raise Undecided("str.join")
        if name in ("upper", "title", "capitalize", "casefold", "rstrip", "lstrip"):
            self.approx(it, f"str.{name}")
            return VStr(z3.Function("py_" + name, T.S, T.S)(s))
        if name in ("splitlines", "split"):
            self.approx(it, f"str.{name}")
            return VSymSeq("lines", m=T.linesOfRaw(s), raw=True)
        raise Undecided(f"str.{name}")

    def path_method(self, it, p, name, args, kwargs):
        if name == "with_name":
            nb = args[0]
            if isinstance(nb, VObj) and nb.cls == "namebuild" and nb.f["path"] is p and \
                    nb.f["parts"] == ["stem", "_delete", "suffix"]:
                return p.with_(marks=p.marks + 1)
            raise Undecided("with_name with a name that is not stem + '_delete' + suffix")
        if name == "mkdir":
            parents = kwargs.get("parents")
            exist_ok = kwargs.get("exist_ok")
            ok = exist_ok is not None and z3.is_true(z3.simplify(self.truth(it, exist_ok)))
            self.makedirs(it, p, exist_ok=ok)
            return NONE
        if name in ("exists", "is_file"):
            return VBool(self.exists(it, p))
        if name == "joinpath":
            return self.join(it, p, list(args)).with_(pathobj=True)
        if name == "is_dir":
            return self.c_os_path_isdir(it, p)
        if name in ("rename", "replace"):
            self.move(it, p, args[0])
            return args[0]
        if name == "unlink":
            if kwargs.get("missing_ok") is not None and \
                    z3.is_true(z3.simplify(self.truth(it, kwargs["missing_ok"]))):
                if not it.ctx.branch(self.isfile(it, p)):
                    return NONE
            self.remove(it, p)
            return NONE
        if name == "open":
            return self.open(it, p, args[0] if args else kwargs.get("mode", "r"))
        if name in ("write_text", "write_bytes"):
            h = self.open(it, p, "w" if name == "write_text" else "wb")
            self.file_write(it, h, args[0])
            self.file_close(it, h)
            return NONE
        if name in ("read_text", "read_bytes"):
            h = self.open(it, p, "r" if name == "read_text" else "rb")
            r = self.file_method(it, h, "read", [], {})
            self.file_close(it, h)
            return r
        if name == "stat":
            return self.c_os_stat(it, p)
        raise Undecided(f"Path.{name}")

    # ---- pieces of Path names:  path.stem + "_delete" + path.suffix -----------------------------
    def binop(self, it, op, a, b):
        if isinstance(op, ast.Add):
            if isinstance(a, VObj) and a.cls == "pathpiece" and cstr(b) is not None:
                return VObj("namebuild", path=a.f["path"], parts=[a.f["piece"], cstr(b)])
            if isinstance(a, VObj) and a.cls == "namebuild" and isinstance(b, VObj) and \
                    b.cls == "pathpiece" and b.f["path"] is a.f["path"]:
                return VObj("namebuild", path=a.f["path"], parts=a.f["parts"] + [b.f["piece"]])
        return super().binop(it, op, a, b)

    # ==========================================================================================
    # synchronisation primitives
    # ==========================================================================================
    def cond_method(self, it, c, name):
        ctx = it.ctx
        cls = c.f["lockcls"]
        if name == "wait":
            if not ctx.__dict__.get("in_monitor", {}).get(cls):
                ctx.fail("sync/wait-inside-with", "wait() outside `with condition`",
                         props=("C08", "C07"))
            ctx.st.env[cls] = ctx.fresh(f"env_{cls}", T.LockSort)
            ctx.event("wait", lockcls=cls)
            return NONE
        if name in ("notify", "notify_all"):
            ctx.event("notify", lockcls=cls)
            return NONE
        raise Undecided(f"Condition.{name}")

    def locklist_method(self, it, l, name, args):
        ctx = it.ctx
        cls = l.f["lockcls"]
        st = ctx.st
        k = self.need_str(it, args[0], "TypeError").term
        if name == "append":
            # monitor invariant: an identifier is in the locked list at most once, i.e. the
            # wait loop before this append tested the very identifier that is appended
            ctx.oblige("sync/acquired-identifier-is-free",
                       z3.Select(st.own[cls], k) + z3.Select(st.env[cls], k) == 0,
                       detail=f"class {cls}", props=("C07", "C12", "C16"))
            st.own[cls] = z3.Store(st.own[cls], k, z3.Select(st.own[cls], k) + 1)
            st.held.append((cls, k))
            ctx.event("acquire", lockcls=cls, key=k,
                      in_monitor=bool(ctx.__dict__.get("in_monitor", {}).get(cls)))
            return NONE
        if name == "remove":
            mine = z3.Select(st.own[cls], k)
            if ctx.branch(mine > 0):
                st.own[cls] = z3.Store(st.own[cls], k, mine - 1)
                for i in range(len(st.held) - 1, -1, -1):
                    if st.held[i][0] == cls and ctx.implied(st.held[i][1] == k):
                        del st.held[i]
                        break
                ctx.event("release", lockcls=cls, key=k,
                          in_monitor=bool(ctx.__dict__.get("in_monitor", {}).get(cls)))
                return NONE
            if ctx.branch(z3.Select(st.env[cls], k) > 0):
                ctx.fail("sync/release-only-own", f"removes an identifier of class {cls} that this "
                         "call did not acquire", props=("C07", "C08", "C12"))
                st.env[cls] = z3.Store(st.env[cls], k, z3.Select(st.env[cls], k) - 1)
                return NONE
            it.raise_("ValueError")
        raise Undecided(f"locked-list.{name}")

    # ==========================================================================================
    # context managers
    # ==========================================================================================
    def enter(self, it, mgr):
        if isinstance(mgr, VObj):
            if mgr.cls == "file":
                if mgr.f["closed"]:
                    it.raise_("ValueError")
                return mgr
            if mgr.cls == "closing":
                return mgr.f["thing"]
            if mgr.cls == "condition":
                im = it.ctx.__dict__.setdefault("in_monitor", {})
                cls = mgr.f["lockcls"]
                if im.get(cls):
                    it.ctx.fail("sync/monitor-reentered", "nested `with` on one condition "
                                "(non-reentrant lock: self-deadlock)", props=("C08",))
                im[cls] = True
                it.ctx.event("monitor-enter", lockcls=cls)
                return mgr
        raise Undecided(f"with {mgr}")

    def exit(self, it, mgr, exc):
        if mgr.cls == "file":
            self.file_close(it, mgr)
        elif mgr.cls == "closing":
            it.call(self.getattr(it, mgr.f["thing"], "close"), [], {})
        elif mgr.cls == "condition":
            it.ctx.in_monitor[mgr.f["lockcls"]] = False
            it.ctx.event("monitor-exit", lockcls=mgr.f["lockcls"])

    # ==========================================================================================
    # constructors of repository classes
    # ==========================================================================================
    def construct(self, it, cls, args, kwargs):
        if cls in EXC_PARENT:
            return mkexc(cls, args[0] if args else None)
        if cls == "ObjectMetadata":
            node = it.eng.classes[cls]
            names = [s.target.id for s in node.body if isinstance(s, ast.AnnAssign)]
            if len(args) + len(kwargs) != len(names):
                it.raise_("TypeError")
            vals = dict(zip(names, args))
            vals.update(kwargs)
            return VObj("ObjectMetadata", **vals)
        if cls in it.eng.classes and f"{cls}.__init__" in it.eng.funcs:
            obj = VObj(cls)
            it.call_repo(f"{cls}.__init__", [obj] + list(args), kwargs)
            return obj
        raise Undecided(f"constructor {cls}")


def _line_of(s):
    """If s is syntactically  x ++ "\\n"  return x."""
    if z3.is_app(s) and s.decl().kind() == z3.Z3_OP_SEQ_CONCAT:
        ch = s.children()
        last = ch[-1]
        if z3.is_string_value(last) and T.zstr(last) == "\n":
            rest = ch[:-1]
            return rest[0] if len(rest) == 1 else z3.Concat(*rest)
    return None


def _is_char_pred(elt, target, pred):
    return (isinstance(elt, ast.Call) and isinstance(elt.func, ast.Attribute)
            and elt.func.attr == pred and isinstance(elt.func.value, ast.Name)
            and isinstance(target, ast.Name) and elt.func.value.id == target.id
            and not elt.args)


# ==============================================================================================
# loop schemas
# ==============================================================================================
def _contains_call(nodes, attr):
    for n in nodes:
        for sub in ast.walk(n):
            if isinstance(sub, ast.Call) and isinstance(sub.func, ast.Attribute) \
                    and sub.func.attr == attr:
                return True
    return False


def _has_ctrl(nodes):
    for n in nodes:
        for sub in ast.walk(n):
            if isinstance(sub, (ast.Break, ast.Continue, ast.Return, ast.Yield)):
                return True
    return False


def _while_true(s):
    return isinstance(s.test, ast.Constant) and s.test.value is True


class LoopLib(FullLib):
    # ---- while ------------------------------------------------------------------------------
    def while_loop(self, it, s, env):
        ctx = it.ctx
        if _contains_call(s.body, "wait") and not s.orelse and not _has_ctrl(s.body):
            # monitor wait loop:  while <busy>: <log>; condition.wait()
            t = it.truth(it.eval(s.test, env))
            if ctx.branch(t):
                it.exec_block(s.body, env)          # wait(): the environment changes the list
                t2 = it.truth(it.eval(s.test, env))
                if ctx.check(z3.Not(t2)) == z3.unsat:
                    ctx.fail("sync/self-deadlock", "waits for an identifier that this very call "
                             "holds: the loop can never exit", props=("C08",))
                    raise PathPruned()
                ctx.assume(z3.Not(t2))              # liveness of the wait is assumed (DESIGN C08)
                ctx.event("waited")
            return
        raise Undecided(f"while-loop at line {s.lineno} has no schema or invariant")

    # ---- for --------------------------------------------------------------------------------
    def schema_for(self, it, s, itv, env):
        ctx = it.ctx
        # (1) counting characters:  for ch in <str>: if ch.isdigit(): n += 1
        if isinstance(itv, (VStr, VDyn)):
            sv = self.need_str(it, itv, "TypeError")
            b = s.body
            if (len(b) == 1 and isinstance(b[0], ast.If) and not b[0].orelse
                    and _is_char_pred(b[0].test, s.target, "isdigit")
                    and len(b[0].body) == 1 and isinstance(b[0].body[0], ast.AugAssign)
                    and isinstance(b[0].body[0].op, ast.Add)
                    and isinstance(b[0].body[0].target, ast.Name)
                    and isinstance(b[0].body[0].value, ast.Constant)
                    and b[0].body[0].value.value == 1 and not s.orelse):
                name = b[0].body[0].target.id
                cur = self.as_int(it, env.lookup(name))
                env.vars[name] = VInt(cur.term + T.ndigits(sv.term))
                return True
            # characters of a string, consumed by a fold body
            self.fold(it, s, env, sv.term, "str")
            return True
        if isinstance(itv, VObj):
            if itv.cls in it.eng.classes and f"{itv.cls}.__iter__" in it.eng.funcs:
                g = it.call_repo(f"{itv.cls}.__iter__", [itv], {})
                if isinstance(g, VObj) and g.cls == "generator":
                    self.generator_loop(it, s, g, env)
                    return True
                raise Undecided("__iter__ did not produce a generator")
            if itv.cls == "generator":
                self.generator_loop(it, s, itv, env)
                return True
            if itv.cls == "file":
                if itv.f["binary"]:
                    # iteration over a binary file yields its lines: non-empty chunks whose
                    # concatenation is the remaining content
                    content = self.handle_content(it, itv)
                    pos = itv.f["pos"]
                    n = z3.Length(content)
                    self.maybe_fault(it, "read", itv.f.get("loc"))
                    self.fold(it, s, env, z3.SubString(content, pos, n - pos), "bytes")
                    itv.f["pos"] = n
                    return True
                return self.lines_search_loop(it, s, itv, env)
        return False

    def generator_loop(self, it, s, gen, env):
        """Consume the generator `gen` with the for-loop `s` (inlined at the loop site)."""
        from .interp import Env
        node = gen.f["node"]
        genv = it.bind_args(node, list(gen.f["args"]), dict(gen.f["kwargs"]), gen.f["closure"])
        done_loop = False
        for st in node.body:
            if isinstance(st, ast.Expr) and isinstance(st.value, ast.Constant):
                continue
            if isinstance(st, ast.While) and _has_ctrl([st]):
                if done_loop:
                    raise Undecided("generator with two yield loops")
                h, n, var = self.match_read_yield(it, st, genv)
                ctx = it.ctx
                ctx.oblige("stream/read-size-positive", n.term >= 1, props=("C01",))
                ctx.assume(n.term >= 1)
                if h.f["closed"]:
                    it.raise_("ValueError")
                if h.f["mode"] not in ("r", "r+") or not h.f["binary"]:
                    raise Undecided("read loop over a non-binary or write-only handle")
                self.maybe_fault(it, "read", h.f.get("loc"))
                content = self.handle_content(it, h)
                pos = h.f["pos"]
                ln = z3.Length(content)
                ctx.oblige("stream/offset-in-range", z3.And(pos >= 0, pos <= ln), props=("C01",))
                rest = z3.SubString(content, pos, ln - pos)
                self.fold(it, s, env, rest, "bytes")
                h.f["pos"] = ln
                genv.vars[var] = VBytes("")
                done_loop = True
                continue
            if _has_ctrl([st]) and any(isinstance(x, (ast.Yield, ast.YieldFrom))
                                       for x in ast.walk(st)):
                raise Undecided("yield outside the read-loop schema")
            it.exec(st, genv)

    def match_read_yield(self, it, w, genv):
        """while True: X = F.read(N); if not X: break; yield X"""
        b = [x for x in w.body if not (isinstance(x, ast.Expr) and isinstance(x.value, ast.Constant))]
        ok = (_while_true(w) and len(b) == 3
              and isinstance(b[0], ast.Assign) and len(b[0].targets) == 1
              and isinstance(b[0].targets[0], ast.Name)
              and isinstance(b[0].value, ast.Call) and isinstance(b[0].value.func, ast.Attribute)
              and b[0].value.func.attr == "read" and len(b[0].value.args) == 1
              and isinstance(b[1], ast.If) and isinstance(b[1].test, ast.UnaryOp)
              and isinstance(b[1].test.op, ast.Not) and isinstance(b[1].test.operand, ast.Name)
              and b[1].test.operand.id == b[0].targets[0].id and len(b[1].body) == 1
              and isinstance(b[1].body[0], ast.Break) and not b[1].orelse
              and isinstance(b[2], ast.Expr) and isinstance(b[2].value, ast.Yield)
              and isinstance(b[2].value.value, ast.Name)
              and b[2].value.value.id == b[0].targets[0].id)
        if not ok:
            raise Undecided(f"generator loop at line {w.lineno} is not the read/yield schema")
        h = it.eval(b[0].value.func.value, genv)
        n = self.as_int(it, it.eval(b[0].value.args[0], genv))
        if not (isinstance(h, VObj) and h.cls == "file"):
            raise Undecided("read loop over a non-file")
        return h, n, b[0].targets[0].id

    # ---- fold: a loop body that is a monoid homomorphism in its chunk argument ----------------
    def fold(self, it, s, env, total, kind):
        """for <target> in <chunks of total>: body   ==   body[target := total]
        provided  body(x); body(y) == body(x ++ y)  and  body("") == skip  (both are obligations)."""
        from .interp import Env
        from .contract import clone, veq, Mismatch
        ctx = it.ctx
        if s.orelse or _has_ctrl(s.body):
            raise Undecided(f"loop at line {s.lineno}: break/continue/return/else in a fold body")
        mk = (lambda t: VBytes(t)) if kind == "bytes" else (lambda t: VStr(t))

        def run(chunks):
            memo = {}
            e2 = _clone_env(env, memo)
            saved = ctx.st
            ctx.st = saved.copy()
            try:
                for c in chunks:
                    it.assign(s.target, mk(c), e2)
                    it.exec_block(s.body, e2)
                return e2, ctx.st
            except PyRaise:
                raise Undecided(f"fold body at line {s.lineno} may raise")
            finally:
                ctx.st = saved

        who = ctx.callstack[-1] if ctx.callstack else it.top
        site = f"loop@{_loopkey(s)}"
        if not ctx.spec_mode:
            k = ctx.fork(3)
            if k in (1, 2):
                saved_fm = ctx.__dict__.get("fault_mode")
                ctx.fault_mode = None
                try:
                    if k == 1:
                        x, y = ctx.fresh("chunkx", T.S), ctx.fresh("chunky", T.S)
                        ea, sa = run([x, y])
                        eb, sb = run([z3.Concat(x, y)])
                        ctx.oblige(f"{who}/loop-fold/homomorphic",
                                   z3.And(sa.fs == sb.fs, _env_eq(it, ea, eb, s.target, s.body)),
                                   detail=site)
                    else:
                        ec, sc = run([T.EMPTY])
                        ctx.oblige(f"{who}/loop-fold/unit",
                                   z3.And(sc.fs == ctx.st.fs, _env_eq(it, ec, env, s.target, s.body)),
                                   detail=site)
                except Mismatch as m:
                    raise Undecided(f"fold body changes the shape of its state: {m}")
                finally:
                    ctx.fault_mode = saved_fm
                raise LemmaDone()
        it.assign(s.target, mk(total), env)
        it.exec_block(s.body, env)
        it.assign(s.target, VOpaque("last chunk"), env)
        for name in _loop_temporaries(s.body):
            if name in env.vars:
                env.vars[name] = VOpaque("value of the last iteration")

    # ---- loops over the lines of a reference file -----------------------------------------------
    def lines_search_loop(self, it, s, h, env):
        """for line in <text file>: <pure assignments>; if <pure cond>: return <const>"""
        from .interp import Env
        ctx = it.ctx
        if h.f.get("loc") is None or not ctx.implied(h.f["pos"] == 0) or s.orelse:
            raise Undecided("line iteration not from the start of a store file")
        self.maybe_fault(it, "read", h.f["loc"])
        st = self.fs_get(it, h.f["loc"])
        m = T.as_lines(st)
        x = ctx.fresh("line", T.S)
        sub = Env(env)
        lv = VStr(z3.Concat(x, z3.StringVal("\n")))
        lv.line_of = x
        it.assign(s.target, lv, sub)
        ctx.pure += 1
        try:
            ret = None
            for b in s.body:
                if isinstance(b, ast.Assign) and len(b.targets) == 1 and \
                        isinstance(b.targets[0], ast.Name):
                    sub.vars[b.targets[0].id] = it.eval(b.value, sub)
                elif isinstance(b, ast.If) and not b.orelse and len(b.body) == 1 and \
                        isinstance(b.body[0], ast.Return) and ret is None:
                    c = it.truth(it.eval(b.test, sub))
                    rv = it.eval(b.body[0].value, sub) if b.body[0].value else NONE
                    ret = (c, rv)
                else:
                    raise Undecided(f"line loop body at line {b.lineno} is outside the search schema")
        finally:
            ctx.pure -= 1
        h.f["pos"] = ctx.fresh("eof", T.I)
        if ret is None:
            return True
        c, rv = ret
        found = _exists_line(m, x, c)
        if ctx.branch(found):
            raise ReturnSig(rv)
        return True

    def str_method(self, it, obj, name, args):
        if name == "strip" and not args and getattr(obj, "line_of", None) is not None:
            return VStr(obj.line_of)   # a line of a reference file is  <wsfree id> + "\n"
        return super().str_method(it, obj, name, args)

    def schema_comprehension(self, it, e, gen, src, env):
        from .interp import Env
        ctx = it.ctx
        if isinstance(src, VSymSeq) and src.what == "lines":
            # [l for l in f.readlines() if <pure cond(l)>]  -> filtered multiset
            strips = (isinstance(e.elt, ast.Call) and isinstance(e.elt.func, ast.Attribute)
                      and e.elt.func.attr in ("strip", "rstrip") and not e.elt.args
                      and isinstance(e.elt.func.value, ast.Name) and isinstance(gen.target, ast.Name)
                      and e.elt.func.value.id == gen.target.id)
            if not strips and not (isinstance(e.elt, ast.Name) and isinstance(gen.target, ast.Name)
                                   and e.elt.id == gen.target.id):
                raise Undecided("line comprehension that transforms its lines")
            m = src.info["m"]
            x = ctx.fresh("line", T.S)
            sub = Env(env)
            lv = VStr(z3.Concat(x, z3.StringVal("\n")))
            lv.line_of = x
            sub.vars[gen.target.id] = lv
            ctx.pure += 1
            try:
                c = z3.And(True, *[it.truth(it.eval(cond, sub)) for cond in gen.ifs])
            finally:
                ctx.pure -= 1
            return VSymSeq("lines", m=_filter_lines(m, x, c), stripped=strips)
        if isinstance(src, VSymSeq) and src.what == "listdir":
            # [d / f for f in os.listdir(d) if os.path.isfile(d / f)]
            ok = (isinstance(e.elt, ast.BinOp) and isinstance(e.elt.op, ast.Div)
                  and isinstance(e.elt.right, ast.Name) and isinstance(gen.target, ast.Name)
                  and e.elt.right.id == gen.target.id and len(gen.ifs) == 1
                  and isinstance(gen.ifs[0], ast.Call) and _dotted_name(gen.ifs[0].func) ==
                  "os.path.isfile" and len(gen.ifs[0].args) == 1
                  and ast.dump(gen.ifs[0].args[0]) == ast.dump(e.elt))
            if not ok:
                raise Undecided("directory-listing comprehension outside the schema")
            base = it.eval(e.elt.left, env)
            if not (isinstance(base, VPath) and base.anchor == A_METADATA and
                    [p[0] for p in base.parts] == ["shard"]
                    and z3.is_true(z3.simplify(base.parts[0][1] == src.info["d"]))):
                raise Undecided("listing joined with another directory")
            return VSymSeq("dirfiles", d=src.info["d"], fs=src.info["fs"], base=base,
                           held=src.info.get("held", []))
        return None


def _dotted_name(n):
    from .interp import _dotted
    return _dotted(n)


def _loopkey(s):
    return ast.unparse(s.target) + " in " + ast.unparse(s.iter)


def _clone_env(env, memo):
    from .interp import Env
    from .contract import clone
    if env is None:
        return None
    e = Env(_clone_env(env.parent, memo))
    for k, v in env.vars.items():
        e.vars[k] = clone(v, memo) if isinstance(v, V) else v
    return e


def _loop_temporaries(body):
    """Names that every iteration assigns before it reads them (per-iteration temporaries)."""
    first = {}
    for st in body:
        for n in ast.walk(st):
            if isinstance(n, ast.Name) and n.id not in first:
                first[n.id] = (n.lineno, n.col_offset, isinstance(n.ctx, ast.Store))
    # ast.walk is breadth-first: decide by source position instead
    seen = {}
    for st in body:
        for n in ast.walk(st):
            if isinstance(n, ast.Name):
                key = (n.lineno, n.col_offset)
                # in `x = f(x)` the value is evaluated first although the target is to its left
                cur = seen.get(n.id)
                if cur is None or key < cur[0]:
                    seen[n.id] = (key, isinstance(n.ctx, ast.Store), n)
    temps = set()
    for name, (key, is_store, node) in seen.items():
        if not is_store:
            continue
        # the earliest occurrence is an assignment target: make sure its own right-hand side
        # does not read the name
        reads_self = False
        for st in body:
            for a in ast.walk(st):
                if isinstance(a, (ast.Assign, ast.AugAssign)) and any(
                        isinstance(t, ast.Name) and t.id == name
                        for t in ([a.target] if isinstance(a, ast.AugAssign) else a.targets)):
                    if isinstance(a, ast.AugAssign) or any(
                            isinstance(x, ast.Name) and x.id == name for x in ast.walk(a.value)):
                        reads_self = True
        if not reads_self:
            temps.add(name)
    return temps


def _env_eq(it, a, b, target, body=()):
    from .contract import veq
    skip = {n.id for n in ast.walk(target) if isinstance(n, ast.Name)} | _loop_temporaries(body)
    cs = []
    while a is not None and b is not None:
        for k in a.vars:
            if k in skip or k not in b.vars:
                continue
            va, vb = a.vars[k], b.vars[k]
            if isinstance(va, (VObj, VList, VDict, VStr, VInt, VBytes, VBool)):
                cs.append(veq(it, va, vb))
        a, b = a.parent, b.parent
    return z3.And(True, *cs)


def _eq_sides(c, x):
    """If c is  x == t  (t free of x) return t."""
    c = z3.simplify(c)
    if z3.is_eq(c):
        l, r = c.arg(0), c.arg(1)
        if l.eq(x) and not _occurs(x, r):
            return r
        if r.eq(x) and not _occurs(x, l):
            return l
    return None


def _occurs(x, t):
    todo = [t]
    while todo:
        u = todo.pop()
        if u.eq(x):
            return True
        todo.extend(u.children())
    return False


def _exists_line(m, x, c):
    t = _eq_sides(c, x)
    if t is not None:
        return z3.Select(m, t) > 0
    xv = z3.Const("x!ex", T.S)
    body = z3.substitute(z3.And(z3.Select(m, x) > 0, T.wsfree(x), c), (x, xv))
    return z3.Exists([xv], body)


def _filter_lines(m, x, c):
    """Multiset of the lines x of m that satisfy c(x)."""
    cs = z3.simplify(c)
    if z3.is_and(cs):
        # a line of a reference file is a non-empty identifier: "line is not blank" is implied
        rest = [k for k in cs.children()
                if not (z3.is_not(k) and _eq_sides(k.arg(0), x) is not None
                        and z3.is_string_value(_eq_sides(k.arg(0), x))
                        and T.zstr(_eq_sides(k.arg(0), x)) == "")]
        if len(rest) == 1:
            cs = rest[0]
        elif not rest:
            return m
    if z3.is_not(cs):
        t = _eq_sides(cs.arg(0), x)
        if t is not None:
            return z3.Store(m, t, z3.IntVal(0))
    if z3.is_distinct(cs) and cs.num_args() == 2:
        t = _eq_sides(cs.arg(0) == cs.arg(1), x)
        if t is not None:
            return z3.Store(m, t, z3.IntVal(0))
    xv = z3.Const("x!flt", T.S)
    return z3.Lambda([xv], z3.If(z3.substitute(c, (x, xv)), z3.Select(m, xv), z3.IntVal(0)))


# ==============================================================================================
# for-each over the files of one metadata directory
# ==============================================================================================
def meta_entry_state(fs_entry, d, done, x):
    """State of location x after the entries `done` of metadata directory d were marked for
    deletion (renamed to <name>_delete), starting from fs_entry."""
    name = T.l_k2(x)
    src = T.mkloc(z3.IntVal(T.K_META), d, name, z3.IntVal(0))
    hit = z3.And(T.l_kind(x) == T.K_META, T.l_k1(x) == d, z3.Select(done, name),
                 T.present(z3.Select(fs_entry, src)))
    return z3.If(z3.And(hit, T.l_marks(x) == 0), T.Absent,
                 z3.If(z3.And(hit, T.l_marks(x) == 1), z3.Select(fs_entry, src),
                       z3.Select(fs_entry, x)))


def meta_marked_fs(fs_entry, d, done):
    x = z3.Const("x!me", T.Loc)
    return z3.Lambda([x], meta_entry_state(fs_entry, d, done, x))


class DirLoopLib(LoopLib):
    def schema_for(self, it, s, itv, env):
        if isinstance(itv, VSymSeq) and itv.what == "dirfiles":
            self.dirfiles_loop(it, s, itv, env)
            return True
        return super().schema_for(it, s, itv, env)

    def dirfiles_loop(self, it, s, seq, env):
        """for path in <files of metadata directory d>: body
        Rule: the body, run for an arbitrary not yet processed entry from the generalised state
        `entries in done are marked`, must re-establish that state for done + {entry}, append
        exactly the marked path to one list and restore the lock multisets."""
        from .interp import Env
        from .contract import clone
        ctx = it.ctx
        d, fs_entry, base = seq.info["d"], seq.info["fs"], seq.info["base"]
        if s.orelse or any(isinstance(x, (ast.Break, ast.Return, ast.Yield))
                           for b in s.body for x in ast.walk(b)):
            raise Undecided("break/return in a directory loop")
        who = ctx.callstack[-1] if ctx.callstack else it.top
        # precondition of the rule: no deletion-marker leftovers in the directory, and the
        # directory has not changed since it was listed
        ctx.oblige(f"{who}/loop-foreach/listing-current", ctx.st.fs == fs_entry,
                   props=("C11", "C05"))
        n = ctx.fresh("entry", T.S)
        # precondition of the rule (I3): the directory holds no deletion-marker leftovers
        ctx.oblige_forall_loc(f"{who}/loop-foreach/no-marker-leftovers", lambda x: z3.Implies(
            z3.And(T.l_kind(x) == T.K_META, T.l_k1(x) == d, T.l_marks(x) >= 1),
            T.is_Absent(z3.Select(fs_entry, x))), props=("C11", "C05"))
        done = ctx.fresh("done", z3.ArraySort(T.S, T.B))
        e = T.mkloc(z3.IntVal(T.K_META), d, n, z3.IntVal(0))
        lists_before = {k: len(v.items) for k, v in _all_lists(env)}
        which = 0 if ctx.spec_mode else ctx.fork(3)
        if which == 2:
            # lemma path: an entry that was listed but has been deleted since by another caller
            # (the listing is taken outside the document lock): the body must cope - no error a
            # sequential run cannot produce (C12) and nothing left locked (C08)
            ctx.assume(T.is_Absent(z3.Select(ctx.st.fs, e)))
            ctx.assume(T.ishex(n))
            own0 = dict(ctx.st.own)
            it.assign(s.target, VPath(A_METADATA, (("shard", d), ("str", n))), env)
            try:
                it.exec_block(s.body, env)
                raised = None
            except ContinueSig:
                raised = None
            except PyRaise as pr:
                raised = pr.exc.cls
            if raised is not None and not (ctx.__dict__.get("fault_mode") or {}).get("injected"):
                ctx.fail(f"{who}/loop-foreach/vanished-entry-is-tolerated",
                         f"the body raises {raised} for an entry deleted since the listing",
                         props=("C12", "C11"))
            else:
                ctx.oblige(f"{who}/loop-foreach/vanished-entry-is-tolerated", z3.BoolVal(True),
                           props=("C12", "C11"))
            ctx.oblige(f"{who}/loop-foreach/locks-restored",
                       z3.And(*[ctx.st.own[c] == own0[c] for c in own0]),
                       detail="entry deleted since the listing", props=("C08", "C12"))
            raise LemmaDone()
        if which == 1:
            # lemma path: the body for one arbitrary entry, from the generalised state
            ctx.st.fs = meta_marked_fs(fs_entry, d, done)
            ctx.assume(z3.Not(z3.Select(done, n)))
            ctx.assume(T.present(z3.Select(fs_entry, e)))
            ctx.assume(T.ishex(n))
            own0 = dict(ctx.st.own)
            it.assign(s.target, VPath(A_METADATA, (("shard", d), ("str", n))), env)
            ev0 = len(ctx.st.events)
            try:
                it.exec_block(s.body, env)
                raised = None
            except ContinueSig:
                raised = None
            except PyRaise as pr:
                raised = pr.exc.cls
            # check-then-act: the entry's existence comes from the listing; the rename that
            # relies on it must see it under the lock that guards the entry
            listed_under = {cl for cl, _ in seq.info.get("held", [])}
            for i, ev in enumerate(ctx.st.events[ev0:]):
                if ev["kind"] == "move" and z3.is_true(z3.simplify(ev["src"] == e)):
                    guards = {cl for cl, _ in ev["held"]}
                    probed = any(x["kind"] == "probe" and z3.is_true(z3.simplify(x["loc"] == e))
                                 and {cl for cl, _ in x["held"]} >= guards
                                 for x in ctx.st.events[ev0:ev0 + i])
                    cname = f"{who}/C-check-then-act/entry-existence-read-under-its-document-lock"
                    if "doc" in guards and "doc" not in listed_under and not probed:
                        ctx.fail(cname,
                                 "the directory is listed before the document lock is taken and the "
                                 "rename under the lock does not re-check that the file still exists",
                                 props=("C12",))
                    else:
                        ctx.oblige(cname, z3.BoolVal(True), props=("C12",))
            if raised is not None and ctx.__dict__.get("fault_mode") is not None \
                    and ctx.fault_mode["injected"]:
                raise LemmaDone()      # an injected failure: handled on the main path below
            if raised is not None:
                ctx.fail(f"{who}/loop-foreach/body-does-not-raise",
                         f"the body may raise {raised} for a listed entry",
                         props=("C11", "C12", "C05"))
                raise LemmaDone()
            want = meta_marked_fs(fs_entry, d, z3.Store(done, n, True))
            x = ctx.skolem_loc()
            ctx.oblige(f"{who}/loop-foreach/per-entry-effect",
                       z3.Select(ctx.st.fs, x) == z3.Select(want, x), props=("C11", "C05"))
            ctx.oblige(f"{who}/loop-foreach/locks-restored",
                       z3.And(*[ctx.st.own[c] == own0[c] for c in own0]), props=("C08", "C12"))
            grown = [(k, v) for k, v in _all_lists(env)
                     if len(v.items) != lists_before.get(k, len(v.items))]
            okl = (len(grown) == 1 and len(grown[0][1].items) == lists_before[grown[0][0]] + 1
                   and isinstance(grown[0][1].items[-1], VPath)
                   and grown[0][1].items[-1].marks == 1)
            if okl:
                got = self.path_loc(it, grown[0][1].items[-1])
                ctx.oblige(f"{who}/loop-foreach/collects-marked-path", got == T.mark(e),
                           props=("C11", "C05"))
            else:
                ctx.fail(f"{who}/loop-foreach/collects-marked-path",
                         "the body does not append exactly the marked path to one list",
                         props=("C11", "C05"))
            raise LemmaDone()
        fm = ctx.__dict__.get("fault_mode")
        if fm and fm["budget"] > 0 and not ctx.spec_mode:
            # an I/O failure inside the loop: an arbitrary subset of the entries was processed
            if ctx.branch(ctx.fresh("fault_in_loop", T.B)):
                fm["budget"] -= 1
                fm["injected"].append(("move", "some entry of the metadata directory"))
                ctx.st.fs = meta_marked_fs(fs_entry, d, done)
                raise PyRaise(mkexc("OSError", fault=True))
        # effect of the whole loop: every listed entry is marked
        alln = z3.K(T.S, z3.BoolVal(True))
        ctx.st.fs = meta_marked_fs(fs_entry, d, alln)
        cands = [v for k, v in _all_lists(env)]
        if len(cands) != 1:
            raise Undecided("cannot identify the list that collects the marked paths")
        target_list = cands[0]
        target_list.items.append(VSymSeq("markedmeta", d=d, fs=fs_entry))
        target_list.guards.append(TRUE)
        it.assign(s.target, VOpaque("last entry"), env)


def _all_lists(env):
    out = []
    e = env
    while e is not None:
        for k, v in e.vars.items():
            if isinstance(v, VList) and v.kind == "list":
                out.append((k, v))
        e = e.parent
    return out
