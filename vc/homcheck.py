"""Character-homomorphism back end (DESIGN 3.6).

lower, replace(c, d) and replace(c, "") map a string character by character, so two compositions
of them agree on all strings iff they agree on all one-character strings.  The lemmas the engine
uses about these functions (vc/sorts.py: L1, L4, lower fixes hex digits) are decided here by
evaluating both sides in CPython on every code point.  str.lower is context dependent only for
U+03A3 (final sigma); both images are checked.
"""
import sys
import time
from .engine import Obligation


def rm_dash(s):
    return s.replace("-", "")


def rm_us(s):
    return s.replace("_", "")


def dash2us(s):
    return s.replace("-", "_")


LEMMAS = {
    "L1: rm_us(rm_dash(dash2us(x))) == rm_us(rm_dash(x))":
        (lambda s: rm_us(rm_dash(dash2us(s))), lambda s: rm_us(rm_dash(s))),
    "L4: rm_us(rm_dash(rm_us(rm_dash(x)))) == rm_us(rm_dash(x))":
        (lambda s: rm_us(rm_dash(rm_us(rm_dash(s)))), lambda s: rm_us(rm_dash(s))),
    "strip(x + '\\n') == strip(x)":
        (lambda s: (s + "\n").strip(), lambda s: s.strip()),
}


def run(eng, tier):
    eng.current = "homcheck"
    for name, (f, g) in LEMMAS.items():
        t0 = time.time()
        bad = None
        for cp in range(sys.maxunicode + 1):
            if 0xD800 <= cp <= 0xDFFF:
                continue
            ch = chr(cp)
            if f(ch) != g(ch):
                bad = cp
                break
        # the lemmas are applied to lower(x): every character lower() can produce must itself be
        # mapped consistently (covers the context-dependent final sigma: both images)
        for ch in ("σ", "ς"):
            if f(ch) != g(ch):
                bad = ord(ch)
        eng.record(Obligation("homcheck/" + name, "discharged" if bad is None else "refuted",
                              time.time() - t0, "all Unicode scalar values" if bad is None
                              else f"fails at U+{bad:04X}", backend="homcheck",
                              props=("C02",)))
    t0 = time.time()
    ok = all(c.lower() == c for c in "0123456789abcdef")
    eng.record(Obligation("homcheck/lower fixes hex digits", "discharged" if ok else "refuted",
                          time.time() - t0, backend="homcheck", props=("C02", "C06")))
    return []
