"""Symbolic Python values used by the interpreter."""
import z3
from . import sorts as T


class Undecided(Exception):
    """The engine cannot interpret something: the run is undecided (exit 2), never a violation."""


class V:
    pass


class VNone(V):
    def __repr__(self):
        return "None"


NONE = VNone()


def tob(x):
    return z3.BoolVal(x) if isinstance(x, bool) else x


class VBool(V):
    def __init__(self, term):
        self.term = tob(term)

    def __repr__(self):
        return f"Bool({self.term})"


class VInt(V):
    def __init__(self, term):
        self.term = z3.IntVal(term) if isinstance(term, int) else term

    def __repr__(self):
        return f"Int({self.term})"


class VStr(V):
    def __init__(self, term):
        self.term = z3.StringVal(term) if isinstance(term, str) else term

    def concrete(self):
        t = z3.simplify(self.term)
        return T.zstr(t) if z3.is_string_value(t) else None

    def __repr__(self):
        return f"Str({self.term})"


class VBytes(V):
    def __init__(self, term):
        self.term = z3.StringVal(term) if isinstance(term, str) else term

    def __repr__(self):
        return f"Bytes({self.term})"


class VOpaque(V):
    """A value no control flow may depend on (log / exception message)."""

    def __init__(self, what="msg"):
        self.what = what

    def __repr__(self):
        return f"Opaque({self.what})"


# dynamic-typed argument ------------------------------------------------------------------------
T_NONE, T_STR, T_INT, T_BOOL, T_OTHER = range(5)
TAGNAMES = {T_NONE: "None", T_STR: "str", T_INT: "int", T_BOOL: "bool", T_OTHER: "other-type"}


class VDyn(V):
    """A symbolic argument whose Python type is itself symbolic (None / str / int / bool / other)."""

    def __init__(self, name, tags):
        self.name = name
        self.tags = tuple(tags)
        self.tag = z3.Int(name + "!tag")
        self.s = z3.String(name + "!s")
        self.i = z3.Int(name + "!i")
        self.b = z3.Bool(name + "!b")

    def domain(self):
        return z3.Or(*[self.tag == t for t in self.tags])

    def __repr__(self):
        return f"Dyn({self.name})"


# paths -----------------------------------------------------------------------------------------
(A_ROOT, A_OBJECTS, A_METADATA, A_REFS, A_CIDS, A_PIDS, A_OBJ_TMP, A_META_TMP, A_REFS_TMP,
 A_REL, A_EXT) = range(11)
ANCHOR_NAMES = ["<root>", "<root>/objects", "<root>/metadata", "<root>/refs", "<root>/refs/cids",
                "<root>/refs/pids", "<root>/objects/tmp", "<root>/metadata/tmp",
                "<root>/refs/tmp", "", "<ext>"]
CHILD = {
    (A_ROOT, "objects"): A_OBJECTS, (A_ROOT, "metadata"): A_METADATA, (A_ROOT, "refs"): A_REFS,
    (A_REFS, "cids"): A_CIDS, (A_REFS, "pids"): A_PIDS, (A_OBJECTS, "tmp"): A_OBJ_TMP,
    (A_METADATA, "tmp"): A_META_TMP, (A_REFS, "tmp"): A_REFS_TMP,
}
PARENT = {v: k[0] for k, v in CHILD.items()}


class VPath(V):
    """A path value: an anchor directory plus components.

    components: ("lit", str) | ("str", z3 String) | ("shard", z3 String) whole shard list of a key
                | ("sharddir", z3 String) the directory part of a shard list
                | ("sharddirs", z3 String, n) ancestors..., ("ext", z3 String) an external path
    `marks` counts "_delete" suffixes appended to the last component.
    `pathobj` distinguishes pathlib.Path from str (they behave alike for every modelled primitive).
    """

    def __init__(self, anchor, parts=(), pathobj=True, marks=0):
        self.anchor = anchor
        self.parts = tuple(parts)
        self.pathobj = pathobj
        self.marks = marks

    def with_(self, **kw):
        d = dict(anchor=self.anchor, parts=self.parts, pathobj=self.pathobj, marks=self.marks)
        d.update(kw)
        return VPath(**d)

    def __repr__(self):
        ps = "/".join(f"{p[0]}:{p[1]}" for p in self.parts)
        return f"Path({ANCHOR_NAMES[self.anchor]}/{ps}{'_delete' * self.marks})"


class VShard(V):
    """The list returned by _shard(key) under its contract (tokens non-empty, concat == key)."""

    def __init__(self, key):
        self.key = key

    def __repr__(self):
        return f"shard({self.key})"


# containers -------------------------------------------------------------------------------------
class VList(V):
    """A list with a concrete skeleton; every element carries a presence guard."""

    def __init__(self, items=(), guards=None, kind="list"):
        self.items = list(items)
        self.guards = list(guards) if guards is not None else [z3.BoolVal(True)] * len(self.items)
        self.kind = kind  # list | set

    def __repr__(self):
        return f"{self.kind}{self.items}"


class VTuple(V):
    def __init__(self, items):
        self.items = tuple(items)

    def __repr__(self):
        return f"tuple{self.items}"


class VDict(V):
    def __init__(self, entries=()):
        self.entries = [list(e) for e in entries]  # [guard, key V, value V]

    def __repr__(self):
        return "dict{" + ", ".join(f"{k}:{v}" for _, k, v in self.entries) + "}"


class VSymSeq(V):
    """A sequence of unknown length (chunks of a stream, entries of a directory): only usable
    through the loop rules that have a schema or an invariant for it."""

    def __init__(self, what, **info):
        self.what = what
        self.info = info

    def __repr__(self):
        return f"SymSeq({self.what})"


class VObj(V):
    def __init__(self, cls, **fields):
        self.cls = cls
        self.f = dict(fields)

    def __repr__(self):
        return f"<{self.cls} {list(self.f)}>"


class VFunc(V):
    def __init__(self, node, closure, qualname, owner=None):
        self.node = node
        self.closure = closure
        self.qualname = qualname
        self.owner = owner


class VBound(V):
    def __init__(self, obj, name):
        self.obj = obj
        self.name = name

    def __repr__(self):
        return f"<bound {self.name} of {self.obj}>"


class VExt(V):
    """Reference to a library module / function / class, by dotted name."""

    def __init__(self, name):
        self.name = name

    def __repr__(self):
        return f"<ext {self.name}>"


# exception class hierarchy (the part the code can observe through `except`) ----------------------
EXC_PARENT = {
    "BaseException": None, "Exception": "BaseException", "KeyboardInterrupt": "BaseException",
    "ValueError": "Exception", "TypeError": "Exception", "KeyError": "LookupError",
    "LookupError": "Exception", "IndexError": "LookupError", "AttributeError": "Exception",
    "AssertionError": "Exception", "RuntimeError": "Exception", "OSError": "Exception",
    "IOError": "Exception",  # alias of OSError, handled in is_subclass
    "FileNotFoundError": "OSError", "FileExistsError": "OSError", "PermissionError": "OSError",
    "IsADirectoryError": "OSError", "NotADirectoryError": "OSError",
    "UnicodeError": "ValueError", "UnicodeEncodeError": "UnicodeError",
    "UnicodeDecodeError": "UnicodeError", "NameError": "Exception",
    "UnboundLocalError": "NameError", "yaml.YAMLError": "Exception",
}
HASHSTORE_EXCS = [
    "CidRefsContentError", "OrphanPidRefsFileFound", "CidRefsFileNotFound",
    "HashStoreRefsAlreadyExists", "NonMatchingChecksum", "NonMatchingObjSize",
    "PidRefsAlreadyExistsError", "PidNotFoundInCidRefsFile", "PidRefsContentError",
    "PidRefsDoesNotExist", "PidRefsFileNotFound", "RefsFileExistsButCidObjMissing",
    "UnsupportedAlgorithm", "StoreObjectForPidAlreadyInProgress", "IdentifierNotLocked",
]
for _e in HASHSTORE_EXCS:
    EXC_PARENT[_e] = "Exception"


def canon_exc(name):
    return "OSError" if name in ("IOError", "EnvironmentError") else name


def is_subclass(cls, base):
    cls, base = canon_exc(cls), canon_exc(base)
    while cls is not None:
        if cls == base:
            return True
        if cls not in EXC_PARENT:
            raise Undecided(f"unknown exception class {cls}")
        cls = canon_exc(EXC_PARENT[cls]) if EXC_PARENT[cls] else None
    return False
