"""Contracts (sidecar specifications) and the refinement check of a real body against them.

A contract consists of
  * cases      - named argument scenarios (shapes of the symbolic arguments),
  * pre        - named preconditions (obligations at call sites, assumptions for the body),
  * spec       - the specification as a transition function over the abstract state: it may fork,
                 raise a Python-level exception (outcome) or return a value, and updates
                 ctx.st / the argument heap.  It is written from the property statements and the
                 interface documentation, never from the body.
A body path refines the contract when, for every spec path that is feasible together with it, the
outcome class, the result, the file system, the lock multisets and the reachable heap agree.
"""
import z3
from . import sorts as T
from .values import *  # noqa
from .engine import PyRaise, PathPruned, mkexc, LOCK_CLASSES
from .interp import Interp


class Contract:
    def __init__(self, qualname, spec=None, pre=None, cases=None, compare=None, props=None,
                 result_eq=None, doc="", ghost_link=None, post_hook=None, use_at_calls=True,
                 inline_pre=(), assumes_clean_cwd=False):
        self.qualname = qualname
        # True: the contract's statement is only valid when no file of the working directory is
        # named like a hex digest (the cwd-relative fallbacks of the object lookup); every other
        # function is verified WITHOUT that assumption
        self.assumes_clean_cwd = assumes_clean_cwd
        self.inline_pre = tuple(inline_pre)   # preconditions also checked where the body is inlined
        self.spec = spec
        self.pre = pre
        self.cases = cases or {}
        self.compare = compare or ("outcome", "result", "fs", "locks", "self", "args")
        self.props = props or {}
        self.result_eq = result_eq
        self.ghost_link = ghost_link
        self.post_hook = post_hook
        self.use_at_calls = use_at_calls   # False: proved for its cases, inlined at call sites
        self.doc = doc

    # ---- use at a call site ------------------------------------------------------------------
    def bind(self, it, args, kwargs):
        node = it.eng.funcs[self.qualname]
        env = it.bind_args(node, list(args), dict(kwargs), None)
        return env.vars

    def check_inline_pre(self, it, args, kwargs):
        """Whole-call scenarios inline every function; the preconditions named in inline_pre are
        obligations of the scenario there (under the scenario's tag), so that a caller-side
        requirement is not lost by inlining."""
        ctx = it.ctx
        tag = ctx.__dict__.get("scenario_tag")
        if not self.inline_pre or self.pre is None or tag is None or ctx.spec_mode:
            return
        bound = self.bind(it, args, kwargs)
        short = self.qualname.split(".")[-1]
        for name, f in self.pre(it, **bound):
            if name in self.inline_pre and not callable(f):
                ctx.oblige(f"{tag}/pre:{short}:{name}", f,
                           detail=f"at the call of {short} from {ctx.callstack[-1] if ctx.callstack else '?'}")

    def attaches(self, bound):
        """The spec function knows every parameter of the real function (a parameter added to the
        real signature detaches the contract: the body is then inlined at calls and the function's
        own refinement check is undecided)."""
        import inspect
        try:
            ps = inspect.signature(self.spec).parameters
        except (TypeError, ValueError):
            return True
        if any(p.kind == p.VAR_KEYWORD for p in ps.values()):
            return True
        return all(n in ps for n in bound)

    def call(self, it, args, kwargs):
        ctx = it.ctx
        bound = self.bind(it, args, kwargs)
        if not self.attaches(bound):
            raise ContractDetached(self.qualname)
        caller = ctx.callstack[-1] if ctx.callstack else (it.top or "?")
        if self.pre is not None:
            for name, f in self.pre(it, **bound):
                oname = f"{caller}/call:{self.qualname}/pre:{name}"
                if callable(f):      # a fact quantified over all locations
                    ctx.oblige_forall_loc(oname, f, props=self.props.get("pre:" + name, ()))
                    ctx.assume_forall_loc(f)
                    continue
                ctx.oblige(oname, f, props=self.props.get("pre:" + name, ()))
                ctx.assume(f)
        ctx.spec_mode += 1
        ctx.callstack.append("spec:" + self.qualname)
        try:
            return self.spec(it, **bound)
        finally:
            ctx.spec_mode -= 1
            ctx.callstack.pop()


def clone(v, memo):
    """Deep copy of the mutable part of a value graph (preserving aliasing)."""
    k = id(v)
    if k in memo:
        return memo[k]
    if isinstance(v, VList):
        c = VList([], [], v.kind)
        memo[k] = c
        c.items = [clone(x, memo) for x in v.items]
        c.guards = list(v.guards)
        return c
    if isinstance(v, VDict):
        c = VDict([])
        memo[k] = c
        c.entries = [[g, clone(a, memo), clone(b, memo)] for g, a, b in v.entries]
        return c
    if isinstance(v, VTuple):
        c = VTuple([clone(x, memo) for x in v.items])
        memo[k] = c
        return c
    if isinstance(v, VObj):
        c = VObj(v.cls)
        memo[k] = c
        for n, x in v.f.items():
            if n == "_guards":
                c.f[n] = dict(x)
            elif isinstance(x, V):
                c.f[n] = clone(x, memo)
            else:
                c.f[n] = x
        return c
    return v


class Mismatch(Exception):
    pass


class ContractDetached(Exception):
    """The real function's signature is no longer the one the contract was written for."""


def veq(it, a, b, seen=None):
    """Structural equality of two values as a z3 Bool (raises Mismatch on different shapes)."""
    seen = seen if seen is not None else set()
    key = (id(a), id(b))
    if key in seen:
        return z3.BoolVal(True)
    seen.add(key)
    lib = it.lib
    if isinstance(a, VOpaque) or isinstance(b, VOpaque):
        return z3.BoolVal(True)   # messages are not compared
    if isinstance(a, VList) and isinstance(b, VList):
        if len(a.items) != len(b.items) or a.kind != b.kind:
            # guarded lists: compare as guarded multisets is out of scope -> compare element-wise
            raise Mismatch(f"list skeletons differ: {a} vs {b}")
        cs = [ga == gb for ga, gb in zip(a.guards, b.guards)]
        for ga, x, y in zip(a.guards, a.items, b.items):
            cs.append(z3.Implies(ga, veq(it, x, y, seen)))
        return z3.And(True, *cs)
    if isinstance(a, VObj) and a.cls == "symdict" and isinstance(b, VDict):
        a, b = b, a
    if isinstance(a, VDict) and isinstance(b, VObj) and b.cls == "symdict":
        # concrete dictionary against a dictionary given as (domain predicate, value function)
        has, get = b.f["fn_has"], b.f["fn_get"]
        k = it.ctx.fresh("anykey", T.S)
        dom = z3.Or(False, *[z3.And(g, lib.eq(it, key, VStr(k))) for g, key, _ in a.entries])
        cs = [dom == has(k)]
        for g, key, val in a.entries:
            kt = key.term
            cs.append(z3.Implies(g, z3.And(has(kt), veq(it, val, get(kt), seen))))
        return z3.And(*cs)
    if isinstance(a, VObj) and a.cls == "symdict" and isinstance(b, VObj) and b.cls == "symdict":
        k = it.ctx.fresh("anykey", T.S)
        return z3.And(a.f["fn_has"](k) == b.f["fn_has"](k),
                      z3.Implies(a.f["fn_has"](k), veq(it, a.f["fn_get"](k), b.f["fn_get"](k), seen)))
    if isinstance(a, VDict) and isinstance(b, VDict):
        if len(a.entries) != len(b.entries):
            raise Mismatch(f"dict skeletons differ: {a} vs {b}")
        cs = []
        for (ga, ka, va), (gb, kb, vb) in zip(a.entries, b.entries):
            cs += [ga == gb, z3.Implies(ga, z3.And(veq(it, ka, kb, seen), veq(it, va, vb, seen)))]
        return z3.And(True, *cs)
    if isinstance(a, VTuple) and isinstance(b, VTuple):
        if len(a.items) != len(b.items):
            raise Mismatch("tuple lengths differ")
        return z3.And(True, *[veq(it, x, y, seen) for x, y in zip(a.items, b.items)])
    if isinstance(a, VObj) and isinstance(b, VObj):
        if a.cls != b.cls:
            raise Mismatch(f"classes differ: {a.cls} vs {b.cls}")
        cs = []
        keys = [k for k in a.f if not k.startswith("_")]
        if set(keys) != {k for k in b.f if not k.startswith("_")}:
            raise Mismatch(f"fields of {a.cls} differ: {sorted(a.f)} vs {sorted(b.f)}")
        for k in keys:
            x, y = a.f[k], b.f[k]
            if isinstance(x, V) and isinstance(y, V):
                cs.append(veq(it, x, y, seen))
            elif z3.is_expr(x) and z3.is_expr(y):
                cs.append(x == y)
            elif x is None or y is None or isinstance(x, (bool, str, int)):
                if x != y:
                    raise Mismatch(f"field {a.cls}.{k}: {x} vs {y}")
        return z3.And(True, *cs)
    if isinstance(a, VShard) and isinstance(b, VShard):
        return a.key == b.key
    if isinstance(a, VSymSeq) and isinstance(b, VSymSeq):
        raise Mismatch("symbolic sequences are compared by their contracts only")
    try:
        return lib.eq(it, a, b)
    except Undecided as e:
        raise Mismatch(str(e))


def verify_case(eng, lib, con, case_name, make_case, monitors=(), setup=None):
    """Explore every path of the real body of con.qualname for one argument scenario and check
    it against the contract.  Returns path summaries."""
    q = con.qualname

    def job(ctx):
        it = Interp(eng, ctx, lib)
        it.top = q
        ctx.monitors = list(monitors)
        args = make_case(it)            # builds arguments + assumes the object/store invariant
        ctx.fs0, ctx.dirs0 = ctx.st.fs, ctx.st.dirs
        ctx.assume_forall_loc(lib.typing(ctx.fs0, ctx.dirs0, cwd_clean=con.assumes_clean_cwd))
        if setup:
            setup(it)
        node = eng.funcs[q]
        bound = it.bind_args(node, list(args), {}, None).vars
        if not con.attaches(bound):
            raise Undecided(f"the signature of {q} changed: its contract does not attach "
                            f"(parameters {sorted(bound)})")
        if con.pre is not None:
            for name, f in con.pre(it, **bound):
                if callable(f):
                    ctx.assume_forall_loc(f)
                else:
                    ctx.assume(f)
        if ctx.check() != z3.sat:
            raise PathPruned()
        memo = {}
        args0 = [clone(a, memo) for a in args]
        st0 = ctx.st.copy()
        # ---- the real body
        try:
            res = it.run_body(q, args, {})
            out_b = ("return", res)
        except PyRaise as pr:
            out_b = ("raise", pr.exc)
        st_b = ctx.st
        summary = {"function": q, "case": case_name, "outcome": _oname(out_b),
                   "events": len(st_b.events), "decisions": None}
        if con.post_hook is not None:
            con.post_hook(it, case_name, out_b)
        # ---- the contract, from the same entry state
        if con.spec is not None:
            ctx.st = st0
            ctx.st.events = []
            bound0 = it.bind_args(node, list(args0), {}, None).vars
            if con.ghost_link is not None:
                con.ghost_link(it, bound0, out_b)
            ctx.spec_mode += 1
            try:
                try:
                    res_s = con.spec(it, **bound0)
                    out_s = ("return", res_s)
                except PyRaise as pr:
                    out_s = ("raise", pr.exc)
            finally:
                ctx.spec_mode -= 1
            st_s = ctx.st
            ctx.st = st_b
            compare(it, con, case_name, out_b, out_s, st_b, st_s, args, args0)
        summary["decisions"] = list(ctx.decisions)
        summary["uncertain"] = ctx.uncertain
        return summary

    return eng.explore(job, f"{q}[{case_name}]")


def _oname(out):
    return "return" if out[0] == "return" else "raise " + out[1].cls


def compare(it, con, case_name, out_b, out_s, st_b, st_s, args_b, args_s):
    ctx = it.ctx
    q = con.qualname
    pr = con.props

    def P(clause):
        return pr.get(clause, pr.get("*", ()))

    site = f"{q}[{case_name}]"
    nb, ns = _oname(out_b), _oname(out_s)
    if "outcome" in con.compare:
        if nb != ns:
            ctx.fail(f"{q}/post/outcome", f"body: {nb}; contract: {ns}", site=site,
                     props=P("outcome"))
            return
        else:
            ctx.oblige(f"{q}/post/outcome", z3.BoolVal(True), site=site, props=P("outcome"))
    elif (out_b[0] == "return") != (out_s[0] == "return"):
        return
    if "result" in con.compare and out_b[0] == "return":
        try:
            f = (con.result_eq or veq)(it, out_b[1], out_s[1])
            ctx.oblige(f"{q}/post/result", f, site=site, props=P("result"))
        except Mismatch as m:
            ctx.fail(f"{q}/post/result", str(m), site=site, props=P("result"))
    if "fs" in con.compare:
        x = ctx.skolem_loc()     # extensionality: equal at an arbitrary location
        ctx.oblige(f"{q}/post/fs", z3.Select(st_b.fs, x) == z3.Select(st_s.fs, x), site=site,
                   props=P("fs"), detail=f"outcome {nb}")
    if "dirs" in con.compare:
        ctx.oblige(f"{q}/post/dirs", st_b.dirs == st_s.dirs, site=site, props=P("dirs"))
    if "locks" in con.compare:
        f = z3.And(*[st_b.own[c] == st_s.own[c] for c in LOCK_CLASSES])
        ctx.oblige(f"{q}/post/locks", f, site=site, props=P("locks"), detail=f"outcome {nb}")
    if "self" in con.compare or "args" in con.compare:
        for i, (a, b) in enumerate(zip(args_b, args_s)):
            is_self = isinstance(a, VObj) and a.cls in it.eng.classes and i == 0
            if is_self and q.endswith(".__init__") and out_b[0] == "raise":
                continue     # the half-built instance of a failed constructor is discarded
            clause = "self" if is_self else "args"
            if clause not in con.compare:
                continue
            if not isinstance(a, (VObj, VList, VDict)):
                continue
            name = f"{q}/post/frame-self" if is_self else f"{q}/post/arg{i}"
            try:
                f = veq(it, a, b)
                ctx.oblige(name, f, site=site, props=P(clause), detail=f"outcome {nb}")
            except Mismatch as m:
                ctx.fail(name, str(m), site=site, props=P(clause))
