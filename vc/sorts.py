"""z3 sorts, uninterpreted symbols and on-demand axiom instantiation (the trusted theory layer).

Everything declared here is *assumed*: it is the meaning given to library behaviour that the
verification conditions are stated over.  Each uninterpreted symbol is listed with the library
behaviour it stands for; `TRUSTED` collects those descriptions for the evidence files.
"""
import z3

S = z3.StringSort()
I = z3.IntSort()
B = z3.BoolSort()

TRUSTED = {}


def trusted(name, text):
    TRUSTED[name] = text


# ----------------------------------------------------------------------------------------------
# Locations of the abstract file system
# ----------------------------------------------------------------------------------------------
K_OBJ, K_PIDREF, K_CIDREF, K_META, K_TMP_OBJ, K_TMP_META, K_TMP_REFS, K_YAML, K_EXT = range(9)
KIND_NAMES = {
    K_OBJ: "Obj", K_PIDREF: "PidRef", K_CIDREF: "CidRef", K_META: "Meta",
    K_TMP_OBJ: "Tmp(objects/tmp)", K_TMP_META: "Tmp(metadata/tmp)", K_TMP_REFS: "Tmp(refs/tmp)",
    K_YAML: "hashstore.yaml", K_EXT: "Ext",
}
PERMANENT_KINDS = (K_OBJ, K_PIDREF, K_META)

Loc = z3.Datatype("Loc")
Loc.declare("mkloc", ("kind", I), ("k1", S), ("k2", S), ("marks", I))
Loc = Loc.create()
mkloc, l_kind, l_k1, l_k2, l_marks = Loc.mkloc, Loc.kind, Loc.k1, Loc.k2, Loc.marks

EMPTY = z3.StringVal("")

import re as _re
_ESC = _re.compile(r"\\u\{([0-9a-fA-F]+)\}|\\x([0-9a-fA-F]{2})")


def zstr(term):
    """The Python string a z3 string value denotes (z3 prints non-ASCII and control characters
    as \\u{..} / \\x.. escapes)."""
    raw = term.as_string()
    return _ESC.sub(lambda m: chr(int(m.group(1) or m.group(2), 16)), raw)


def loc(kind, k1=None, k2=None, marks=0):
    return mkloc(z3.IntVal(kind), EMPTY if k1 is None else k1, EMPTY if k2 is None else k2,
                 z3.IntVal(marks) if isinstance(marks, int) else marks)


def mark(l):
    """The location `<l>_delete` (one more deletion marker)."""
    return mkloc(l_kind(l), l_k1(l), l_k2(l), l_marks(l) + 1)


# A cid reference file is abstracted as the multiset of its (stripped) lines.
Lines = z3.ArraySort(S, I)
NOLINES = z3.K(S, z3.IntVal(0))

FileState = z3.Datatype("FileState")
FileState.declare("Absent")
FileState.declare("Data", ("data", S))       # raw bytes / text
FileState.declare("LinesF", ("lines", Lines))  # newline-terminated identifier lines
FileState = FileState.create()
Absent, Data, LinesF = FileState.Absent, FileState.Data, FileState.LinesF
is_Absent, is_Data, is_LinesF = FileState.is_Absent, FileState.is_Data, FileState.is_LinesF
f_data, f_lines = FileState.data, FileState.lines

FSSort = z3.ArraySort(Loc, FileState)
DirSort = z3.ArraySort(S, B)        # directory id -> exists
LockSort = z3.ArraySort(S, I)       # identifier -> number of times it is in the locked list
NOLOCKS = z3.K(S, z3.IntVal(0))

# number of lines of a line file (with multiplicity): only these facts are used
card = z3.Function("card", Lines, I)
trusted("card", "cardinality of a line multiset: >= 0, 0 exactly for the empty multiset, "
        "card(m[k := v]) = card(m) - m[k] + v")
# text <-> lines coercions for files read in the "wrong" way (only reachable after type confusion)
rawOf = z3.Function("rawOf", Lines, S)
linesOfRaw = z3.Function("linesOfRaw", S, Lines)
trusted("rawOf/linesOfRaw", "opaque text of a line file / opaque line multiset of a text file "
        "(assumed: linesOfRaw('') = empty; rawOf(m) = '' exactly when m has no line; a non-empty "
        "rawOf(m) ends with a newline and contains  <line>\\n  for each line of m)")


def as_text(fstate):
    return z3.If(is_Data(fstate), f_data(fstate), rawOf(f_lines(fstate)))


def as_lines(fstate):
    return z3.If(is_LinesF(fstate), f_lines(fstate),
                 z3.If(f_data(fstate) == EMPTY, NOLINES, linesOfRaw(f_data(fstate))))


def present(fstate):
    return z3.Not(is_Absent(fstate))


# ----------------------------------------------------------------------------------------------
# Hashing
# ----------------------------------------------------------------------------------------------
Hd = z3.Function("Hd", S, S, S)           # Hd(algorithm, bytes) = hexdigest
Hd_inv = z3.Function("Hd_inv", S, S, S)   # left inverse (collision-freedom)
utf8 = z3.Function("utf8", S, S)          # bytes(text, 'utf8')
utf8_inv = z3.Function("utf8_inv", S, S)
dlen = z3.Function("dlen", S, I)          # digest length in hex characters
ishex = z3.Function("ishex", S, B)        # hex string, either case (no '/', '.', whitespace)
trusted("Hd", "hashlib.new(a); update(b)...; hexdigest() = Hd(a, concatenation of the updates)")
trusted("Hd injective", "Hd(a, .) is injective (hash collision-freedom, idealisation)")
trusted("utf8 injective", "bytes(s,'utf8') is injective on well-formed strings and "
        "utf8(a+b) = utf8(a)+utf8(b)")
trusted("digest format", "a hexdigest is a non-empty lower-case hex string of the algorithm's "
        "fixed length; hex strings contain no whitespace, '/', '.' or '_'")

DLEN = {"md5": 32, "sha1": 40, "sha256": 64, "sha384": 96, "sha512": 128, "sha224": 56,
        "sha3_224": 56, "sha3_256": 64, "sha3_384": 96, "sha3_512": 128, "blake2b": 128,
        "blake2s": 64}
DEFAULT5 = ["md5", "sha1", "sha256", "sha384", "sha512"]
OTHER7 = ["sha224", "sha3_224", "sha3_256", "sha3_384", "sha3_512", "blake2b", "blake2s"]
SUPPORTED12 = DEFAULT5 + OTHER7

# ----------------------------------------------------------------------------------------------
# Strings
# ----------------------------------------------------------------------------------------------
strip = z3.Function("py_strip", S, S)
lower = z3.Function("py_lower", S, S)
hasws = z3.Function("hasws", S, B)   # any(ch.isspace() for ch in s)
allws = z3.Function("allws", S, B)   # all(ch.isspace() for ch in s)  (true for "")
ndigits = z3.Function("ndigits", S, I)  # sum(1 for ch in s if ch.isdigit())
rm_dash = z3.Function("rm_dash", S, S)     # s.replace("-", "")
rm_us = z3.Function("rm_us", S, S)         # s.replace("_", "")
dash2us = z3.Function("dash2us", S, S)     # s.replace("-", "_")
uni_normalize = z3.Function("unicodedata_normalize", S, S, S)   # no axiom: any string function
trusted("unicodedata.normalize", "a pure function of (form, text); nothing else is assumed, so code "
        "whose result must not depend on it is refuted")
trusted("str.strip/isspace", "strip(s)=='' iff all characters are whitespace; strip(s)==s when s "
        "has no whitespace; a non-empty all-whitespace string has whitespace")
trusted("str.lower/replace", "uninterpreted; only the character-homomorphism lemmas checked on "
        "every code point by vc/homcheck.py are used")


def wsfree(s):
    return z3.And(s != EMPTY, z3.Not(hasws(s)))


# tmp-file naming: the name NamedTemporaryFile picks is a function of the current file system
fresh_tmp = z3.Function("fresh_tmp", FSSort, I, S)
trusted("NamedTemporaryFile", "creates a previously absent file Tmp(dir, n) whose name n is "
        "non-empty, contains no '.', '/' or whitespace")

# stream chunking
trusted("read(n)", "successive read(n) calls return non-empty chunks whose concatenation is the "
        "remaining content, then b''")


class Axioms:
    """Instantiates the assumed axioms for the ground terms that occur in a formula."""

    def __init__(self):
        self.seen = {}     # id -> term (the reference keeps the id from being reused)
        self.out = []

    def visit(self, e):
        """Returns the axiom instances triggered by the terms of e (and, transitively, by the
        terms of those instances) that were not returned before."""
        result = []
        todo = [e]
        while todo:
            t = todo.pop()
            if not z3.is_expr(t):
                continue
            k = t.get_id()
            if k in self.seen:
                continue
            self.seen[k] = t
            if z3.is_quantifier(t):
                todo.append(t.body())   # ground subterms under the binder are instantiated too
                continue
            if z3.is_var(t):
                continue
            if z3.is_app(t):
                if not self.has_var(t):
                    self.inst(t)
                todo.extend(t.children())
                if self.out:
                    result.extend(self.out)
                    todo.extend(self.out)
                    self.out = []
        return result

    def has_var(self, t):
        """Does t mention a bound variable?  (memoised, linear)"""
        memo = self.__dict__.setdefault("_hv", {})
        k = t.get_id()
        if k in memo:
            return memo[k][0]
        if z3.is_var(t):
            r = True
        elif z3.is_quantifier(t):
            r = False     # closed from the outside; its body is handled separately
        else:
            r = any(self.has_var(c) for c in t.children())
        memo[k] = (r, t)
        return r

    def inst(self, t):
        d = t.decl()
        n = d.name()
        add = self.out.append
        if n == "Hd" and d.arity() == 2:
            a, x = t.arg(0), t.arg(1)
            add(Hd_inv(a, t) == x)
            add(ishex(t))
            add(lower(t) == t)      # hexdigest() is lower-case
            add(dlen(a) >= 1)
        elif n == "utf8":
            x = t.arg(0)
            add(utf8_inv(t) == x)
            add((t == EMPTY) == (x == EMPTY))
            if z3.is_app(x) and x.decl().kind() == z3.Z3_OP_SEQ_CONCAT:
                add(t == z3.Concat(*[utf8(c) for c in x.children()]))
        elif n == "py_lower" and not z3.is_string_value(t.arg(0)):
            # ishex(x) says "hex digits of either case" (a caller may pass a cid in upper case):
            # lower() is the identity only on digests produced by hashlib (see Hd above)
            add(z3.Implies(ishex(t.arg(0)), ishex(t)))
            v = pyeval(t)
            if v is not None:
                add(t == z3.StringVal(v))
        elif n == "ishex":
            x = t.arg(0)
            add(z3.Implies(t, z3.And(x != EMPTY, z3.Not(hasws(x)))))
        elif n == "py_strip":
            x = t.arg(0)
            v = pyeval(t)
            if v is not None:
                add(t == z3.StringVal(v))
            add((t == EMPTY) == allws(x))
            add(z3.Implies(z3.Not(hasws(x)), t == x))
            add(z3.Implies(z3.And(allws(x), x != EMPTY), hasws(x)))
            add(z3.Implies(x == EMPTY, allws(x)))
            if z3.is_app(x) and x.decl().kind() == z3.Z3_OP_SEQ_CONCAT:
                ch = x.children()
                if z3.is_string_value(ch[-1]) and ch[-1].as_string() == "\n":
                    y = ch[0] if len(ch) == 2 else z3.Concat(*ch[:-1])
                    add(t == strip(y))   # a trailing newline is whitespace
        elif n == "allws":
            x = t.arg(0)
            add(z3.Implies(z3.And(t, x != EMPTY), hasws(x)))
            add(z3.Implies(x == EMPTY, t))
        elif n == "hasws":
            x = t.arg(0)
            add(z3.Implies(x == EMPTY, z3.Not(t)))
            if z3.is_string_value(x):
                add(t == z3.BoolVal(any(c.isspace() for c in zstr(x))))
        elif n == "fresh_tmp":
            fs, area = t.arg(0), t.arg(1)
            add(is_Absent(z3.Select(fs, mkloc(area, t, EMPTY, z3.IntVal(0)))))
            add(t != EMPTY)
            add(z3.Not(hasws(t)))
        elif n == "dlen":
            add(t >= 1)
        elif n == "card":
            m = t.arg(0)
            add(t >= 0)
            add((t == 0) == (m == NOLINES))
            if z3.is_app(m) and m.decl().kind() == z3.Z3_OP_STORE:
                b, k, v = m.arg(0), m.arg(1), m.arg(2)
                add(t == card(b) - z3.Select(b, k) + v)
        elif n == "rawOf":
            # the text of a line file is empty exactly when it has no line, and otherwise ends with
            # the newline of its last line
            add((t == EMPTY) == (t.arg(0) == NOLINES))
            add(z3.Implies(t != EMPTY, z3.SuffixOf(z3.StringVal("\n"), t)))
        elif n in PYFUN:
            v = pyeval(t)
            if v is not None:
                add(t == z3.StringVal(v))
            x = t.arg(0)
            nolemma = self.__dict__.setdefault("nolemma", {})
            if n == "dash2us" and t.get_id() not in nolemma:
                # L1 (checked on every code point by vc/homcheck.py)
                g = rm_us(rm_dash(t))
                nolemma[g.get_id()] = g
                add(g == rm_us(rm_dash(x)))
                self.table()
            if n == "rm_us" and z3.is_app(x) and x.decl().name() == "rm_dash" \
                    and t.get_id() not in nolemma:
                # L4: (rm_us . rm_dash) is idempotent
                g = rm_us(rm_dash(t))
                nolemma[g.get_id()] = g
                add(g == t)
                self.table()
        elif d.kind() == z3.Z3_OP_SEQ_CONTAINS:
            # the raw text of a line file contains  <line> + "\n"  for each of its lines
            hay, needle = t.arg(0), t.arg(1)
            if z3.is_app(hay) and hay.decl().name() == "rawOf" and z3.is_app(needle) and \
                    needle.decl().kind() == z3.Z3_OP_SEQ_CONCAT:
                ch = needle.children()
                if z3.is_string_value(ch[-1]) and ch[-1].as_string() == "\n":
                    y = ch[0] if len(ch) == 2 else z3.Concat(*ch[:-1])
                    add(z3.Implies(z3.Select(hay.arg(0), y) > 0, t))
        elif d.kind() == z3.Z3_OP_SEQ_CONCAT and YAML_HOOK:
            YAML_HOOK[0](self, t)
        elif d.kind() == z3.Z3_OP_SELECT and t.arg(0).sort() == Lines:
            self.inst_select(t)
        elif n == "ndigits":
            add(t >= 0)
            x = t.arg(0)
            if z3.is_string_value(x):
                add(t == sum(1 for c in zstr(x) if c.isdigit()))

    def inst_select(self, t):
        """Pointwise typing facts of identifier multisets (line files and locked lists):
        counts are non-negative; every line of a reference file is a whitespace-free identifier."""
        base, idx = t.arg(0), t.arg(1)
        for arr, fact in self.__dict__.get("pointwise", []):
            if base.eq(arr):
                self.out.append(fact(idx))
        leaves = []
        todo = [base]
        while todo:
            b = todo.pop()
            if z3.is_app(b) and b.decl().kind() == z3.Z3_OP_ITE:
                todo.extend([b.arg(1), b.arg(2)])
            else:
                leaves.append(b)
        if any(z3.is_app(b) and b.decl().kind() == z3.Z3_OP_STORE for b in leaves):
            return
        self.out.append(t >= 0)
        if any(z3.is_app(b) and b.decl().name() in ("lines", "linesOfRaw") for b in leaves):
            self.out.append(z3.Implies(t > 0, wsfree(idx)))

    def table(self):
        """Ground facts: the string functions evaluated on the twelve canonical names."""
        if getattr(self, "_table", False):
            return
        self._table = True
        for nm in SUPPORTED12:
            c = z3.StringVal(nm)
            for f in (rm_us(rm_dash(c)), dash2us(c), lower(c), rm_us(rm_dash(lower(c)))):
                self.out.append(f == z3.StringVal(pyeval(f)))


YAML_HOOK = []


PYFUN = {
    "py_lower": str.lower, "rm_dash": lambda v: v.replace("-", ""),
    "rm_us": lambda v: v.replace("_", ""), "dash2us": lambda v: v.replace("-", "_"),
    "py_strip": str.strip,
}


def pyeval(t):
    """Evaluate a ground term built from the modelled string functions with CPython itself."""
    if z3.is_string_value(t):
        return zstr(t)
    if z3.is_app(t) and t.decl().name() in PYFUN and t.num_args() == 1:
        v = pyeval(t.arg(0))
        if v is not None:
            return PYFUN[t.decl().name()](v)
    return None


def _has_var(e):
    todo = [e]
    while todo:
        t = todo.pop()
        if z3.is_var(t):
            return True
        if z3.is_quantifier(t):
            continue
        todo.extend(t.children())
    return False
