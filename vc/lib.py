"""Models of Python built-ins and library primitives (the trusted base of the engine).

Every function here is an *assumed contract* of a CPython / standard-library behaviour, stated over
the abstract state of vc/engine.py.  Anything not modelled raises Undecided (the run is then
undecided, never a violation).
"""
import ast
import z3
from . import sorts as T
from .values import *  # noqa
from .engine import PyRaise, ReturnSig, BreakSig, ContinueSig, PathPruned, mkexc, LOCK_CLASSES

TRUE = z3.BoolVal(True)
FALSE = z3.BoolVal(False)

fsize = z3.Function("fsize", T.FileState, T.I)
sdir = z3.Function("sdir", T.I, T.S, T.S)      # directory holding the file of kind/key
relstr = z3.Function("relstr", T.S, T.S, T.S, T.S)  # rendering of a cwd-relative path
T.trusted("fsize", "os.path.getsize: len(bytes) for a binary file; 0 for a line file iff it has "
          "no line")
T.trusted("directories", "a file exists only inside an existing directory; os.makedirs creates "
          "all missing ancestors; the code never removes a directory")

ANCHOR_DIR = {a: z3.StringVal("@" + ANCHOR_NAMES[a]) for a in range(len(ANCHOR_NAMES))}
TMP_KIND = {A_OBJ_TMP: T.K_TMP_OBJ, A_META_TMP: T.K_TMP_META, A_REFS_TMP: T.K_TMP_REFS}
KIND_TMP_ANCHOR = {v: k for k, v in TMP_KIND.items()}
SHARD_KIND = {A_OBJECTS: T.K_OBJ, A_PIDS: T.K_PIDREF, A_CIDS: T.K_CIDREF}

MUTATING = {"remove", "move", "open-w", "open-a", "open-r+", "write", "truncate", "mktemp",
            "makedirs", "mkdir", "writelines"}


def _ax_fsize(self, t):
    pass


# extend the axiom instantiator for symbols declared in this module
_old_inst = T.Axioms.inst


def _inst(self, t):
    _old_inst(self, t)
    d = t.decl()
    if d.name() == "fsize":
        x = t.arg(0)
        self.out.append(t >= 0)
        self.out.append(z3.Implies(T.is_Data(x), t == z3.Length(T.f_data(x))))
        self.out.append(z3.Implies(T.is_LinesF(x), (t == 0) == (T.f_lines(x) == T.NOLINES)))


T.Axioms.inst = _inst


class Lib:
    def __init__(self):
        self.typed = set()

    # ==========================================================================================
    # state helpers
    # ==========================================================================================
    def approx(self, it, why):
        it.ctx.__dict__.setdefault("approx_ops", []).append(why)

    def touch(self, it, loc):
        """Instantiate the location-quantified assumptions (typing part of the store invariant,
        stated preconditions) for a location the path touches."""
        ctx = it.ctx
        key = loc.get_id()
        if key in ctx.__dict__.setdefault("_typed", {}):
            return
        ctx._typed[key] = loc
        for fn in ctx.__dict__.get("forall_locs", []):
            ctx.assume(fn(loc))

    def typing(self, fs0, dirs0, cwd_clean=True):
        """Typing part of the store invariant for the entry state, as a fact about every
        location.  cwd_clean=False drops the assumption about the working directory (used for the
        functions that are verified without it)."""
        def fact(loc):
            st = z3.Select(fs0, loc)
            kind = T.l_kind(loc)
            return z3.And(
                z3.Implies(kind == T.K_PIDREF,
                           z3.Or(T.is_Absent(st), z3.And(T.is_Data(st), T.ishex(T.f_data(st))))),
                z3.Implies(kind == T.K_CIDREF, z3.Or(T.is_Absent(st), T.is_LinesF(st))),
                z3.Implies(z3.Or(kind == T.K_OBJ, kind == T.K_META),
                           z3.Or(T.is_Absent(st), T.is_Data(st))),
                # a file exists only inside an existing directory
                z3.Implies(T.present(st), z3.Select(dirs0, self.parent_dir_of_loc(loc))),
                # no file of the working directory is named like a hex digest (the cwd-relative
                # fallbacks of the path lookups find nothing)
                z3.Implies(z3.And(kind == T.K_EXT, T.ishex(T.l_k1(loc))), T.is_Absent(st))
                if cwd_clean else z3.BoolVal(True),
            )
        return fact

    def fs_get(self, it, loc):
        self.touch(it, loc)
        return z3.Select(it.ctx.st.fs, loc)

    def fs_set(self, it, loc, st):
        self.touch(it, loc)
        it.ctx.st.fs = z3.Store(it.ctx.st.fs, loc, st)

    def parent_dir_of_loc(self, loc):
        kind = T.l_kind(loc)
        e = ANCHOR_DIR[A_EXT]
        e = z3.If(z3.And(kind == T.K_EXT, z3.PrefixOf(z3.StringVal("<root>/"), T.l_k1(loc))),
                  ANCHOR_DIR[A_ROOT], e)
        e = z3.If(kind == T.K_YAML, ANCHOR_DIR[A_ROOT], e)
        for a, k in TMP_KIND.items():
            e = z3.If(kind == k, ANCHOR_DIR[a], e)
        for k in (T.K_OBJ, T.K_PIDREF, T.K_CIDREF, T.K_META):
            e = z3.If(kind == k, sdir(z3.IntVal(k), T.l_k1(loc)), e)
        return z3.simplify(e)

    def as_path(self, it, p):
        """The store path string of a constructor call denotes the root directory."""
        sp = it.ctx.__dict__.get("store_path_term")
        if sp is not None and isinstance(p, (VStr, VDyn)):
            t = p.term if isinstance(p, VStr) else p.s
            if t.eq(sp) and (isinstance(p, VStr) or it.ctx.implied(p.tag == T_STR)):
                return VPath(A_ROOT, (), pathobj=False)
            # <store path> + "/<name>"
            if z3.is_app(t) and t.decl().kind() == z3.Z3_OP_SEQ_CONCAT and t.num_args() == 2 \
                    and t.arg(0).eq(sp) and z3.is_string_value(t.arg(1)) \
                    and T.zstr(t.arg(1)).startswith("/"):
                name = T.zstr(t.arg(1))[1:]
                if "/" not in name and name:
                    return VPath(A_ROOT, (("lit", name),), pathobj=False)
        return p

    def path_loc(self, it, p, what="file"):
        """Map a path value to the abstract location it denotes (contract of the path algebra)."""
        p = self.as_path(it, p)
        if it.ctx.__dict__.get("memo_stack"):
            it.ctx.fail("memo/memoised-function-depends-only-on-its-arguments",
                        f"{it.ctx.memo_stack[-1]} accesses the file system; its cached result "
                        "outlives a change of the file")
        if isinstance(p, VObj) and p.cls == "file":
            raise Undecided("file object used as path")
        if isinstance(p, (VStr, VDyn)):
            s = self.need_str(it, p, "TypeError")
            return T.loc(T.K_EXT, s.term)
        if not isinstance(p, VPath):
            raise Undecided(f"not a path: {p}")
        a, parts = p.anchor, p.parts
        kinds = [x[0] for x in parts]
        if a in SHARD_KIND and kinds == ["shard"]:
            self.wellformed_key(it, parts[0][1])
            return T.loc(SHARD_KIND[a], parts[0][1], marks=p.marks)
        if a == A_METADATA and kinds == ["shard", "str"]:
            self.wellformed_key(it, parts[0][1])
            self.wellformed_name(it, parts[1][1])
            return T.loc(T.K_META, parts[0][1], parts[1][1], marks=p.marks)
        if a == A_METADATA and kinds == ["shard", "entry"]:
            e = parts[1][1]
            return T.mkloc(z3.IntVal(T.K_META), parts[0][1], T.l_k2(e), T.l_marks(e) + p.marks)
        if a in TMP_KIND and kinds == ["str"]:
            return T.loc(TMP_KIND[a], parts[0][1], marks=p.marks)
        if a == A_ROOT and parts == (("lit", "hashstore.yaml"),):
            return T.loc(T.K_YAML, marks=p.marks)
        if a == A_ROOT and kinds == ["lit"] and (A_ROOT, parts[0][1]) not in CHILD:
            # another plain file directly under the store root (e.g. the client's log file)
            return T.loc(T.K_EXT, z3.StringVal("<root>/" + parts[0][1]), marks=p.marks)
        if a == A_EXT and kinds == ["str"]:
            return T.loc(T.K_EXT, parts[0][1], marks=p.marks)
        if a == A_EXT and kinds == ["loc"]:
            return parts[0][1]
        if a == A_EXT and kinds == ["garbage"]:
            # the path obtained by sharding an absolute path string and joining the tokens:
            # assumed to name no file
            l = T.loc(T.K_EXT, z3.Concat(z3.StringVal("<sharded>:"), parts[0][1]), marks=p.marks)
            it.ctx.assume(T.is_Absent(z3.Select(it.ctx.st.fs, l)))
            return l
        if a == A_REL or (a in (A_OBJECTS, A_METADATA) and parts):
            # cwd-relative probe or a non-layout path under objects/ or metadata/: an external
            # location that is assumed to hold no file (DESIGN §5 C18)
            l = T.loc(T.K_EXT, self.render(it, p), marks=p.marks)
            it.ctx.assume(T.is_Absent(z3.Select(it.ctx.st.fs, l)))
            return l
        raise Undecided(f"path shape not in the layout algebra: {p}")

    def render(self, it, p):
        r = z3.StringVal(ANCHOR_NAMES[p.anchor] + ":")
        for x in p.parts:
            if x[0] == "lit":
                r = z3.Concat(r, z3.StringVal("/" + x[1]))
            elif x[0] in ("str", "shard", "sharddir"):
                r = relstr(r, z3.StringVal(x[0]), x[1])
            else:
                raise Undecided(f"render {p}")
        return r

    def wellformed_key(self, it, k):
        """A sharded key must be a hex digest: otherwise os.path.join could leave the store."""
        it.ctx.oblige("path/key-is-hex-digest", T.ishex(k), detail=str(k)[:80],
                      props=("C18", "C15"))
        it.ctx.assume(T.ishex(k))

    def wellformed_name(self, it, n):
        it.ctx.oblige("path/name-is-hex-digest", T.ishex(n), detail=str(n)[:80],
                      props=("C18", "C15"))
        it.ctx.assume(T.ishex(n))

    def path_dir(self, it, p):
        """Directory id (z3 String) of a path value that denotes a directory."""
        p = self.as_path(it, p)
        if not isinstance(p, VPath):
            raise Undecided(f"not a directory path: {p}")
        a, parts = p.anchor, p.parts
        kinds = [x[0] for x in parts]
        if not parts and a != A_REL:
            return ANCHOR_DIR[a]
        if a in SHARD_KIND and kinds == ["sharddir"]:
            return sdir(z3.IntVal(SHARD_KIND[a]), parts[0][1])
        if a == A_METADATA and kinds == ["shard"]:
            return sdir(z3.IntVal(T.K_META), parts[0][1])
        if a == A_ROOT and kinds == ["lit"] and (A_ROOT, parts[0][1]) in CHILD:
            return ANCHOR_DIR[CHILD[(A_ROOT, parts[0][1])]]
        if a == A_EXT and kinds == ["str"]:
            return z3.Concat(z3.StringVal("@ext:"), parts[0][1])
        raise Undecided(f"directory shape not in the layout algebra: {p}")

    def is_dir_path(self, p):
        if not isinstance(p, VPath):
            return False
        if p.marks:
            return False
        kinds = [x[0] for x in p.parts]
        if not p.parts:
            return True
        if p.anchor in SHARD_KIND and kinds == ["sharddir"]:
            return True
        if p.anchor == A_METADATA and kinds == ["shard"]:
            return True
        if p.anchor == A_ROOT and kinds == ["lit"] and (A_ROOT, p.parts[0][1]) in CHILD:
            return True
        return False

    def dir_exists(self, it, did):
        return z3.Select(it.ctx.st.dirs, did)

    # ---- fault injection -----------------------------------------------------------------------
    def maybe_fault(self, it, prim, target=None):
        ctx = it.ctx
        fm = ctx.__dict__.get("fault_mode")
        if not fm or ctx.spec_mode:
            return
        key = (prim, None if target is None else str(z3.simplify(target)))
        if key in fm["persistent"]:
            ctx.event("fault", prim=prim, target=target, persistent=True)
            raise PyRaise(mkexc("OSError", fault=True))
        if fm["budget"] <= 0:
            return
        b = ctx.fresh("fault", T.B)
        if ctx.branch(b):
            fm["budget"] -= 1
            fm["injected"].append(key)
            if fm.get("persist"):
                fm["persistent"].add(key)
            ctx.event("fault", prim=prim, target=target, persistent=bool(fm.get("persist")))
            raise PyRaise(mkexc("OSError", fault=True))

    # ==========================================================================================
    # truthiness, comparison, arithmetic
    # ==========================================================================================
    def truth(self, it, v):
        if isinstance(v, VBool):
            return v.term
        if isinstance(v, VNone):
            return FALSE
        if isinstance(v, (VStr, VBytes)):
            return v.term != T.EMPTY
        if isinstance(v, VInt):
            return v.term != 0
        if isinstance(v, VList):
            return z3.Or(*v.guards) if v.items else FALSE
        if isinstance(v, VTuple):
            return TRUE if v.items else FALSE
        if isinstance(v, VDict):
            return z3.Or(*[e[0] for e in v.entries]) if v.entries else FALSE
        if isinstance(v, (VObj, VPath, VFunc, VBound, VExt)):
            return TRUE
        if isinstance(v, VShard):
            return v.key != T.EMPTY
        if isinstance(v, VDyn):
            cases = []
            for t in v.tags:
                if t == T_NONE:
                    cases.append(z3.And(v.tag == t, FALSE))
                elif t == T_STR:
                    cases.append(z3.And(v.tag == t, v.s != T.EMPTY))
                elif t == T_INT:
                    cases.append(z3.And(v.tag == t, v.i != 0))
                elif t == T_BOOL:
                    cases.append(z3.And(v.tag == t, v.b))
                else:
                    cases.append(z3.And(v.tag == t, z3.Bool(v.name + "!truthy")))
            return z3.Or(*cases)
        if isinstance(v, VSymSeq):
            if "nonempty" in v.info:
                return v.info["nonempty"]
            if v.what == "lines":
                return v.info["m"] != T.NOLINES
        raise Undecided(f"truth value of {v}")

    def need_str(self, it, v, exc="AttributeError"):
        if isinstance(v, VStr):
            return v
        if isinstance(v, VDyn):
            if it.ctx.branch(v.tag == T_STR):
                return VStr(v.s)
            it.raise_(exc)
        if isinstance(v, VOpaque):
            raise Undecided("control flow depends on a message string")
        it.raise_(exc)

    def as_int(self, it, v, exc="TypeError"):
        if isinstance(v, VInt):
            return v
        if isinstance(v, VBool):
            return VInt(z3.If(v.term, 1, 0))
        if isinstance(v, VDyn):
            k = it.ctx.choose([v.tag == T_INT, v.tag == T_BOOL,
                               z3.And(v.tag != T_INT, v.tag != T_BOOL)])
            if k == 0:
                return VInt(v.i)
            if k == 1:
                return VInt(z3.If(v.b, 1, 0))
            it.raise_(exc)
        it.raise_(exc)

    def narrow(self, it, v):
        """Replace a VDyn whose tag is decided on this path by the plain value."""
        if not isinstance(v, VDyn):
            return v
        for t in v.tags:
            if it.ctx.implied(v.tag == t):
                if t == T_NONE:
                    return NONE
                if t == T_STR:
                    return VStr(v.s)
                if t == T_INT:
                    return VInt(v.i)
                if t == T_BOOL:
                    return VBool(v.b)
        return v

    def eq(self, it, a, b):
        """Python `==` as a z3 Bool."""
        if isinstance(a, VDyn) and not isinstance(b, VDyn):
            a, b = b, a
        if isinstance(b, VDyn):
            if isinstance(a, VNone):
                return b.tag == T_NONE
            if isinstance(a, VStr):
                return z3.And(b.tag == T_STR, b.s == a.term)
            if isinstance(a, VInt):
                return z3.Or(z3.And(b.tag == T_INT, b.i == a.term),
                             z3.And(b.tag == T_BOOL, z3.If(b.b, 1, 0) == a.term))
            if isinstance(a, VBool):
                return z3.Or(z3.And(b.tag == T_BOOL, b.b == a.term),
                             z3.And(b.tag == T_INT, b.i == z3.If(a.term, 1, 0)))
            if isinstance(a, VDyn):
                if a is b:
                    return TRUE
                return z3.And(a.tag == b.tag, z3.Or(
                    a.tag == T_NONE, z3.And(a.tag == T_STR, a.s == b.s),
                    z3.And(a.tag == T_INT, a.i == b.i), z3.And(a.tag == T_BOOL, a.b == b.b)))
            return FALSE
        if isinstance(a, VNone) or isinstance(b, VNone):
            return TRUE if (isinstance(a, VNone) and isinstance(b, VNone)) else FALSE
        if isinstance(a, VStr) and isinstance(b, VStr):
            return a.term == b.term
        if isinstance(a, VBytes) and isinstance(b, VBytes):
            return a.term == b.term
        if isinstance(a, (VInt, VBool)) and isinstance(b, (VInt, VBool)):
            if isinstance(a, VBool) and isinstance(b, VBool):
                return a.term == b.term
            return self.as_int(it, a).term == self.as_int(it, b).term
        if isinstance(a, VOpaque) or isinstance(b, VOpaque):
            self.approx(it, "comparison of a message string")
            return it.ctx.fresh("opaque_cmp", T.B)
        if isinstance(a, VPath) and isinstance(b, VPath):
            if a.anchor == b.anchor and a.marks == b.marks and len(a.parts) == len(b.parts) and \
                    all(x[0] == y[0] for x, y in zip(a.parts, b.parts)):
                cs = [TRUE]
                for x, y in zip(a.parts, b.parts):
                    cs.append(z3.BoolVal(x[1] == y[1]) if x[0] == "lit" else x[1] == y[1])
                return z3.And(*cs)
            raise Undecided(f"path comparison {a} == {b}")
        if isinstance(a, VTuple) and isinstance(b, VTuple):
            if len(a.items) != len(b.items):
                return FALSE
            return z3.And(TRUE, *[self.eq(it, x, y) for x, y in zip(a.items, b.items)])
        if type(a) is not type(b):
            # different built-in types never compare equal (str vs bool, str vs int, ...)
            simple = (VStr, VBytes, VInt, VBool, VNone, VList, VDict, VTuple, VPath)
            if isinstance(a, simple) and isinstance(b, simple):
                return FALSE
        if isinstance(a, VObj) and isinstance(b, VObj):
            if a is b:
                return TRUE
            if a.cls == b.cls == "ObjectMetadata":
                return z3.And(*[self.eq(it, a.f[k], b.f[k]) for k in ("pid", "cid", "obj_size")])
        raise Undecided(f"equality of {a} and {b}")

    def compare(self, it, op, a, b):
        if isinstance(op, ast.Eq):
            return self.eq(it, a, b)
        if isinstance(op, ast.NotEq):
            return z3.Not(self.eq(it, a, b))
        if isinstance(op, (ast.Is, ast.IsNot)):
            r = self.is_(it, a, b)
            return r if isinstance(op, ast.Is) else z3.Not(r)
        if isinstance(op, (ast.In, ast.NotIn)):
            r = self.contains(it, b, a)
            return r if isinstance(op, ast.In) else z3.Not(r)
        if isinstance(op, (ast.Lt, ast.Gt, ast.LtE, ast.GtE)):
            x, y = self.as_int(it, a), self.as_int(it, b)
            return {ast.Lt: x.term < y.term, ast.Gt: x.term > y.term, ast.LtE: x.term <= y.term,
                    ast.GtE: x.term >= y.term}[type(op)]
        raise Undecided("comparison operator")

    def is_(self, it, a, b):
        if isinstance(b, VNone):
            if isinstance(a, VNone):
                return TRUE
            if isinstance(a, VDyn):
                return a.tag == T_NONE
            return FALSE
        if isinstance(b, VBool) and z3.is_bool(b.term) and (z3.is_true(b.term) or z3.is_false(b.term)):
            if isinstance(a, VBool):
                return a.term == b.term
            if isinstance(a, VDyn):
                return z3.And(a.tag == T_BOOL, a.b == b.term)
            return FALSE
        if a is b:
            return TRUE
        raise Undecided(f"`is` on {a}, {b}")

    def contains(self, it, container, x):
        if isinstance(container, VList):
            return z3.Or(FALSE, *[z3.And(g, self.eq(it, e, x))
                                  for g, e in zip(container.guards, container.items)])
        if isinstance(container, VTuple):
            return z3.Or(FALSE, *[self.eq(it, e, x) for e in container.items])
        if isinstance(container, VDict):
            return z3.Or(FALSE, *[z3.And(g, self.eq(it, k, x)) for g, k, _ in container.entries])
        if isinstance(container, VObj) and container.cls == "locklist":
            k = self.need_str(it, x, "TypeError").term
            c = container.f["lockcls"]
            st = it.ctx.st
            it.ctx.event("lock-test", lockcls=c, key=k)
            return z3.Select(st.own[c], k) + z3.Select(st.env[c], k) > 0
        if isinstance(container, (VStr, VDyn)):
            s = self.need_str(it, container, "TypeError")
            xs = self.need_str(it, x, "TypeError")
            return z3.Contains(s.term, xs.term)
        if isinstance(container, VObj) and container.cls == "symdict":
            return container.f["fn_has"](self.need_str(it, x, "TypeError").term)
        raise Undecided(f"`in` on {container}")

    def binop(self, it, op, a, b):
        if isinstance(op, ast.Add):
            if isinstance(a, VOpaque) or isinstance(b, VOpaque):
                return VOpaque("msg")
            if isinstance(a, (VStr, VDyn)) and isinstance(b, (VStr, VDyn)):
                x = self.need_str(it, a, "TypeError")
                y = self.need_str(it, b, "TypeError")
                return VStr(z3.Concat(x.term, y.term))
            if isinstance(a, VBytes) and isinstance(b, VBytes):
                return VBytes(z3.Concat(a.term, b.term))
            if isinstance(a, (VInt, VBool)) and isinstance(b, (VInt, VBool)):
                return VInt(self.as_int(it, a).term + self.as_int(it, b).term)
            if isinstance(a, VList) and isinstance(b, VList):
                return VList(a.items + b.items, a.guards + b.guards)
            if isinstance(a, VTuple) and isinstance(b, VTuple):
                return VTuple(a.items + b.items)
            if isinstance(a, VNone) or isinstance(b, VNone):
                it.raise_("TypeError")
            raise Undecided(f"+ on {a}, {b}")
        if isinstance(op, ast.Div):
            if isinstance(a, VPath):
                return self.join(it, a, [b]).with_(pathobj=True)
            raise Undecided(f"/ on {a}, {b}")
        if isinstance(op, (ast.Mult, ast.Sub, ast.FloorDiv, ast.Mod)):
            x, y = self.as_int(it, a), self.as_int(it, b)
            if isinstance(op, ast.Mult):
                return VInt(x.term * y.term)
            if isinstance(op, ast.Sub):
                return VInt(x.term - y.term)
            raise Undecided("// or %")
        raise Undecided(f"binary operator {type(op).__name__}")

    # ==========================================================================================
    # paths
    # ==========================================================================================
    def join(self, it, base, rest):
        p = base
        for r in rest:
            if isinstance(r, VPath):
                if r.anchor != A_REL:
                    p = r   # an absolute component resets the join
                    continue
                newparts = r.parts
            elif isinstance(r, VShard):
                if getattr(r, "absolute", False):
                    # tokens of an absolute path string: the first one starts with "/" and resets
                    # the join; the result is a path outside the layout
                    p = VPath(A_EXT, (("garbage", r.key),), False)
                    continue
                newparts = (("shard", r.key),)
            elif isinstance(r, (VStr, VDyn)):
                s = self.need_str(it, r, "TypeError")
                c = s.concrete()
                if c is not None:
                    if c.startswith("/"):
                        raise Undecided("join with a literal absolute component")
                    newparts = tuple(("lit", x) for x in c.split("/") if x)
                else:
                    newparts = (("str", s.term),)
            elif isinstance(r, VObj) and r.cls == "direntry":
                newparts = (("entry", r.f["loc"]),)
            else:
                raise Undecided(f"path join with {r}")
            p = self._extend(it, p, newparts)
        return p

    def _extend(self, it, p, newparts):
        anchor, parts = p.anchor, list(p.parts)
        if p.marks:
            raise Undecided("join below a marked path")
        for np in newparts:
            if np[0] == "lit" and not parts and (anchor, np[1]) in CHILD:
                anchor = CHILD[(anchor, np[1])]
            else:
                if np[0] == "str" and not parts and anchor in (A_OBJECTS, A_METADATA, A_REFS,
                                                                A_CIDS, A_PIDS, A_ROOT):
                    # a symbolic first component under a store directory must not be one of the
                    # fixed sub-directory names, and must not be absolute (join-reset rule)
                    it.ctx.oblige("path/component-relative",
                                  z3.Or(T.ishex(np[1]),
                                        z3.And(np[1] != T.EMPTY,
                                               z3.Not(z3.PrefixOf(z3.StringVal("/"), np[1])))),
                                  props=("C18",))
                parts.append(np)
        return VPath(anchor, parts, p.pathobj)

    def dirname(self, it, p):
        if not isinstance(p, VPath):
            raise Undecided(f"dirname of {p}")
        if p.marks:
            raise Undecided("dirname of marked path")
        if not p.parts:
            if p.anchor in PARENT:
                return VPath(PARENT[p.anchor], (), p.pathobj)
            return VPath(A_EXT, (("str", z3.StringVal("<parent of root>")),), p.pathobj)
        last = p.parts[-1]
        if last[0] == "shard":
            if p.anchor == A_METADATA:
                raise Undecided("dirname of a metadata directory")
            return VPath(p.anchor, p.parts[:-1] + (("sharddir", last[1]),), p.pathobj)
        if last[0] in ("str", "lit", "entry"):
            return VPath(p.anchor, p.parts[:-1], p.pathobj)
        raise Undecided(f"dirname of {p}")

    def basename(self, it, p):
        if isinstance(p, VPath) and p.parts:
            last = p.parts[-1]
            if last[0] == "str" and not p.marks:
                return VStr(last[1])
            if last[0] == "lit" and not p.marks:
                return VStr(last[1])
            if last[0] == "entry":
                return VObj("direntry", loc=last[1])
        raise Undecided(f"basename of {p}")

    # ==========================================================================================
    # attribute access
    # ==========================================================================================
    def getattr(self, it, obj, name):
        if isinstance(obj, VExt):
            from .interp import EXT_CONSTS
            if obj.name + "." + name in EXT_CONSTS:
                return VStr(EXT_CONSTS[obj.name + "." + name])
            if obj.name.startswith("class:") and f"{obj.name[6:]}.{name}" in it.eng.funcs:
                q = f"{obj.name[6:]}.{name}"      # Class.method: the plain function
                return VFunc(it.eng.funcs[q], None, q)
            return VExt(obj.name + "." + name)
        if isinstance(obj, VObj):
            if it.ctx.__dict__.get("memo_stack") and obj.cls in it.eng.classes and name in obj.f:
                it.ctx.fail("memo/memoised-function-depends-only-on-its-arguments",
                            f"{it.ctx.memo_stack[-1]} reads instance field {name}")
            g = obj.f.get("_guards", {}).get(name)
            if g is not None:
                if not it.ctx.branch(g):
                    it.raise_("AttributeError")
            if name in obj.f:
                return obj.f[name]
            if obj.cls in it.eng.classes:
                if f"{obj.cls}.{name}" in it.eng.funcs:
                    return VBound(obj, name)
                attrs = it.eng.class_attrs.get(obj.cls, {})
                if name in attrs:
                    if "_cls_" + name in obj.f:
                        return obj.f["_cls_" + name]
                    v = it.eval(attrs[name], __import__("vc.interp", fromlist=["Env"]).Env())
                    obj.f["_cls_" + name] = v  # class-level object: one shared instance
                    return v
                it.raise_("AttributeError")
            if obj.cls == "file":
                if name == "name":
                    if obj.f.get("noname"):
                        it.raise_("AttributeError")
                    return obj.f["namev"]
                if name == "closed":
                    return VBool(obj.f["closed"])
            if obj.cls == "stat_result" and name == "st_blksize":
                return obj.f["blk"]
            if obj.cls == "stat_result" and name == "st_size":
                return obj.f["st_size"]
            if obj.cls in EXC_PARENT:
                if name == "args":
                    return VTuple([obj.f.get("msg", VOpaque())])
            if obj.cls == "frameinfo" and name == "function":
                return VOpaque("caller name")
            return VBound(obj, name)
        if isinstance(obj, VPath):
            if name == "parent":
                return self.dirname(it, obj)
            if name == "name":
                return self.basename(it, obj)
            if name in ("stem", "suffix"):
                return VObj("pathpiece", path=obj, piece=name)
            return VBound(obj, name)
        if isinstance(obj, VNone):
            it.raise_("AttributeError")
        if isinstance(obj, VDyn):
            if it.ctx.branch(obj.tag == T_NONE):
                it.raise_("AttributeError")
            return VBound(obj, name)
        return VBound(obj, name)

    def setattr(self, it, obj, name, v):
        if obj.f.get("_frozen"):
            raise Undecided(f"assignment to attribute {name} of {obj.cls}")
        gs = obj.f.get("_guards")
        if gs is not None and name in gs:
            gs[name] = TRUE
        obj.f[name] = v

    def hasattr(self, it, obj, name):
        if isinstance(obj, VObj):
            if obj.cls == "file":
                return VBool(name in ("read", "tell", "seek", "close", "write", "readlines") or
                             (name == "name" and not obj.f.get("noname")))
            return VBool(name in obj.f or f"{obj.cls}.{name}" in it.eng.funcs)
        if isinstance(obj, (VStr, VPath, VNone, VInt, VBytes)):
            return VBool(False) if name in ("read", "tell", "seek", "name") else VBool(
                name in ("strip", "lower") and isinstance(obj, VStr))
        if isinstance(obj, VDyn):
            if name in ("read", "tell", "seek"):
                return VBool(False)
        raise Undecided(f"hasattr({obj}, {name})")

    # ==========================================================================================
    # subscripts
    # ==========================================================================================
    def getitem(self, it, obj, key):
        if isinstance(obj, (VList, VTuple)):
            items = obj.items
            if isinstance(obj, VList) and not all(z3.is_true(g) for g in obj.guards):
                raise Undecided("index into guarded list")
            k = z3.simplify(self.as_int(it, key).term)
            if z3.is_int_value(k):
                i = k.as_long()
                if -len(items) <= i < len(items):
                    return items[i]
                it.raise_("IndexError")
            raise Undecided("symbolic index")
        if isinstance(obj, VDict):
            r = self.dict_lookup(it, obj, key)
            if r is not None:
                return r
            it.raise_("KeyError")
        if isinstance(obj, VObj) and obj.cls == "symdict":
            k = self.need_str(it, key, "KeyError")
            if it.ctx.branch(obj.f["fn_has"](k.term)):
                return obj.f["fn_get"](k.term)
            it.raise_("KeyError")
        if isinstance(obj, VNone):
            it.raise_("TypeError")
        if isinstance(obj, VSymSeq) and obj.what == "lines" and obj.info.get("raw"):
            # one line of a line file (which one is not modelled: the multiset has no order):
            # <identifier> + "\n" for some identifier of the multiset
            k = z3.simplify(self.as_int(it, key).term)
            if not z3.is_int_value(k):
                raise Undecided("symbolic index into the lines of a file")
            m = obj.info["m"]
            if it.ctx.branch(m == T.NOLINES):
                it.raise_("IndexError")
            x = it.ctx.fresh("line", T.S)
            it.ctx.assume(z3.Select(m, x) > 0)
            lv = VStr(z3.Concat(x, z3.StringVal("\n")))
            lv.line_of = x
            return lv
        raise Undecided(f"subscript of {obj}")

    def dict_lookup(self, it, d, key):
        """Value of key in d, or None when absent (one fork on presence; values merged by ite
        when they are all strings)."""
        conds = [z3.simplify(z3.And(g, self.eq(it, k, key))) for g, k, _ in d.entries]
        live = [(c, v) for c, (_, _, v) in zip(conds, d.entries) if not z3.is_false(c)]
        if not live:
            return None
        for c, v in live:
            if z3.is_true(c):
                return v
        if all(isinstance(v, VStr) for _, v in live):
            if not it.ctx.branch(z3.Or(*[c for c, _ in live])):
                return None
            val = live[-1][1].term
            for c, v in reversed(live[:-1]):
                val = z3.If(c, v.term, val)
            return VStr(val)
        for c, v in live:
            if it.ctx.branch(c):
                return v
        return None

    def setitem(self, it, obj, key, v):
        if isinstance(obj, VDict):
            for e in obj.entries:
                if z3.is_true(e[0]) and z3.is_true(z3.simplify(self.eq(it, e[1], key))):
                    e[2] = v
                    return
            for e in obj.entries:
                if not z3.is_false(z3.simplify(z3.And(e[0], self.eq(it, e[1], key)))):
                    raise Undecided("dict update with possibly equal symbolic key")
            obj.entries.append([TRUE, key, v])
            return
        raise Undecided(f"item assignment on {obj}")

    def slice(self, it, obj, lo, hi):
        if isinstance(obj, (VStr, VDyn)):
            s = self.need_str(it, obj, "TypeError").term
            n = z3.Length(s)
            lo_t = z3.IntVal(0) if lo is None else self.as_int(it, lo).term
            hi_t = n if hi is None else self.as_int(it, hi).term
            # Python slice semantics for non-negative bounds (an obligation, not an assumption)
            it.ctx.oblige("slice/non-negative-bounds", z3.And(lo_t >= 0, hi_t >= 0))
            lo_c = z3.If(lo_t > n, n, lo_t)
            hi_c = z3.If(hi_t > n, n, hi_t)
            ln = z3.If(hi_c > lo_c, hi_c - lo_c, 0)
            return VStr(z3.SubString(s, lo_c, ln))
        raise Undecided(f"slice of {obj}")

    # ==========================================================================================
    # containers and iteration
    # ==========================================================================================
    def iter_concrete(self, it, v, star=False):
        if isinstance(v, VList):
            if not all(z3.is_true(g) for g in v.guards):
                raise Undecided("star/iteration over guarded list")
            return list(v.items)
        if isinstance(v, VTuple):
            return list(v.items)
        if isinstance(v, VShard):
            return [v]
        raise Undecided(f"cannot enumerate {v}")

    def make_set(self, it, lst):
        if isinstance(lst, VList):
            items, guards = [], []
            for i, (g, e) in enumerate(zip(lst.guards, lst.items)):
                dup = [z3.And(guards[j], self.eq(it, items[j], e)) for j in range(len(items))]
                g2 = z3.simplify(z3.And(g, z3.Not(z3.Or(FALSE, *dup))))
                if z3.is_false(g2):
                    continue
                # optional elements are decided here (path fork), so that every later list,
                # zip and dict built from the set has a concrete skeleton
                if not z3.is_true(g2) and not it.ctx.branch(g2):
                    continue
                items.append(e)
                guards.append(TRUE)
            return VList(items, guards, kind="set")
        raise Undecided(f"set({lst})")

    def comprehension(self, it, e, env, kind):
        from .interp import Env
        if len(e.generators) != 1:
            raise Undecided("nested comprehension")
        gen = e.generators[0]
        src = it.eval(gen.iter, env)
        if isinstance(src, VObj) and src.cls == "file" and not src.f["binary"]:
            # iterating a text file yields the same lines as readlines()
            src = self.file_method(it, src, "readlines", [], {})
        r = self.schema_comprehension(it, e, gen, src, env)
        if r is not None:
            return r
        if isinstance(src, (VList, VTuple)):
            items = src.items
            guards = src.guards if isinstance(src, VList) else [TRUE] * len(items)
            out, og = [], []
            for g, x in zip(guards, items):
                # evaluate under the element's guard only if it may be present
                sub = Env(env)
                if not z3.is_true(g):
                    if not it.ctx.branch(g):
                        continue
                it.assign(gen.target, x, sub)
                keep = TRUE
                skip = False
                for cond in gen.ifs:
                    c = it.truth(it.eval(cond, sub))
                    if not it.ctx.branch(c):
                        skip = True
                        break
                if skip:
                    continue
                out.append(it.eval(e.elt, sub))
                og.append(keep)
            return VList(out, og)
        raise Undecided(f"comprehension over {src}")

    def schema_comprehension(self, it, e, gen, src, env):
        return None

    def for_loop(self, it, s, itv, env):
        from .interp import Env
        r = self.schema_for(it, s, itv, env)
        if r:
            return
        if isinstance(itv, (VList, VTuple)):
            items = itv.items
            guards = itv.guards if isinstance(itv, VList) else [TRUE] * len(items)
            broke = False
            for g, x in zip(list(guards), list(items)):
                if not z3.is_true(g):
                    if not it.ctx.branch(g):
                        continue
                it.assign(s.target, x, env)
                try:
                    it.exec_block(s.body, env)
                except BreakSig:
                    broke = True
                    break
                except ContinueSig:
                    continue
            if not broke:
                it.exec_block(s.orelse, env)
            return
        raise Undecided(f"for-loop over {itv} (line {s.lineno}) has no schema or invariant")

    def schema_for(self, it, s, itv, env):
        return False

    def while_loop(self, it, s, env):
        raise Undecided(f"while-loop at line {s.lineno} has no schema or invariant")
