"""AST interpreter over symbolic values.  Interprets the real FunctionDef nodes of /repo."""
import ast
import z3
from . import sorts as T
from .values import *  # noqa
from .engine import PyRaise, ReturnSig, BreakSig, ContinueSig, PathPruned, mkexc

EXT_ROOTS = {
    "os", "shutil", "io", "hashlib", "logging", "yaml", "fcntl", "inspect", "atexit", "threading",
    "multiprocessing", "Path", "closing", "NamedTemporaryFile", "isinstance", "len", "int", "str",
    "bool", "set", "dict", "zip", "any", "all", "range", "hasattr", "getattr", "type", "bytes",
    "list", "open", "print", "tuple", "sorted", "enumerate", "min", "max", "repr", "setattr",
    "ArgumentParser", "RawTextHelpFormatter", "HashStoreFactory", "datetime", "importlib", "sys",
    "time", "pg8000", "Pool", "FileHashStore_ext", "float", "map", "iter", "next", "id",
}
import string as _string
EXT_CONSTS = {"string." + n: getattr(_string, n) for n in
              ("whitespace", "digits", "hexdigits", "ascii_letters", "ascii_lowercase",
               "ascii_uppercase", "punctuation", "octdigits", "printable")}
REPO_CLASSES = {"FileHashStore", "Stream", "ObjectMetadata", "HashStoreParser", "HashStoreClient",
                "MetacatDB"}
SKIP_CALL_PREFIXES = ("logging.",)


class Env:
    def __init__(self, parent=None):
        self.vars = {}
        self.parent = parent

    def lookup(self, name):
        e = self
        while e is not None:
            if name in e.vars:
                return e.vars[name]
            e = e.parent
        raise KeyError(name)


class Interp:
    MAX_INLINE_DEPTH = 12

    def __init__(self, engine, ctx, lib):
        self.eng = engine
        self.ctx = ctx
        self.lib = lib
        self.top = None  # qualname whose body is being verified (its own contract is not used)
        self.force_inline = set()
        self.active_exc = []

    # ------------------------------------------------------------------------------------------
    # calling repository functions
    # ------------------------------------------------------------------------------------------
    def call_repo(self, qualname, args, kwargs, use_contract=True):
        eng = self.eng
        con = eng.contracts.get(qualname)
        usable = (con is not None and use_contract and con.use_at_calls
                  and qualname not in self.force_inline
                  and eng.established.get(qualname, True) and con.spec is not None)
        if usable and qualname in eng.funcs and _decorators(eng.funcs[qualname], qualname):
            usable = False      # a memoised function is not its contract: run the body under the memo rule
        if usable:
            from .contract import ContractDetached
            try:
                r = con.call(self, args, kwargs)
                self.ctx.cover.add(("call", qualname))
                return r
            except ContractDetached:
                # signature changed: use the real body instead of the contract
                eng.inlined.add(qualname + " (contract detached: signature changed)")
        if qualname not in eng.funcs:
            raise Undecided(f"no source for {qualname}")
        if con is not None:
            con.check_inline_pre(self, args, kwargs)
        if con is None:
            eng.inlined.add(qualname)
        return self.run_body(qualname, args, kwargs)

    def bind_args(self, node, args, kwargs, closure):
        env = Env(closure)
        a = node.args
        params = [p.arg for p in a.posonlyargs + a.args]
        defaults = a.defaults
        ndef = len(defaults)
        if len(args) > len(params) and a.vararg is None:
            raise PyRaise(mkexc("TypeError"))
        for i, p in enumerate(params):
            if i < len(args):
                env.vars[p] = args[i]
            elif p in kwargs:
                env.vars[p] = kwargs.pop(p)
            else:
                j = i - (len(params) - ndef)
                if j >= 0:
                    env.vars[p] = self.eval(defaults[j], env)
                else:
                    raise PyRaise(mkexc("TypeError"))
        for kw, d in zip(a.kwonlyargs, a.kw_defaults):
            if kw.arg in kwargs:
                env.vars[kw.arg] = kwargs.pop(kw.arg)
            elif d is not None:
                env.vars[kw.arg] = self.eval(d, env)
        if kwargs:
            raise PyRaise(mkexc("TypeError"))
        return env

    def run_body(self, qualname, args, kwargs, closure=None, node=None):
        node = node or self.eng.funcs[qualname]
        if self.ctx.depth > self.MAX_INLINE_DEPTH:
            raise Undecided(f"inline depth exceeded at {qualname}")
        if _is_generator(node):
            return VObj("generator", node=node, args=list(args), kwargs=dict(kwargs),
                        qualname=qualname, closure=closure)
        memo = _decorators(node, qualname)
        env = self.bind_args(node, list(args), dict(kwargs), closure)
        self.ctx.depth += 1
        self.ctx.callstack.append(qualname)
        if memo:
            # functools.lru_cache / cache: the memoised function equals the plain one exactly when
            # its result depends on nothing but its arguments; every read of mutable state (file
            # system, instance fields) inside it is an obligation that fails
            self.ctx.__dict__.setdefault("memo_stack", []).append(qualname)
        try:
            self.exec_block(node.body, env)
            return NONE
        except ReturnSig as r:
            return r.value
        finally:
            if memo:
                self.ctx.memo_stack.pop()
            self.ctx.depth -= 1
            self.ctx.callstack.pop()

    # ------------------------------------------------------------------------------------------
    # statements
    # ------------------------------------------------------------------------------------------
    def exec_block(self, stmts, env):
        for s in stmts:
            self.exec(s, env)

    def exec(self, s, env):
        m = getattr(self, "x_" + type(s).__name__, None)
        if m is None:
            raise Undecided(f"unsupported statement {type(s).__name__} at line {s.lineno}")
        return m(s, env)

    def x_Expr(self, s, env):
        if isinstance(s.value, ast.Constant):
            return  # docstring
        self.eval(s.value, env)

    def x_Pass(self, s, env):
        pass

    def x_Global(self, s, env):
        pass

    def x_Import(self, s, env):
        pass

    def x_ImportFrom(self, s, env):
        pass

    def x_Assign(self, s, env):
        v = self.eval(s.value, env)
        for t in s.targets:
            self.assign(t, v, env)

    def x_AnnAssign(self, s, env):
        if s.value is not None:
            self.assign(s.target, self.eval(s.value, env), env)

    def x_AugAssign(self, s, env):
        cur = self.eval(_as_load(s.target), env)
        v = self.binop(s.op, cur, self.eval(s.value, env))
        self.assign(s.target, v, env)

    def assign(self, t, v, env):
        if isinstance(t, ast.Name):
            env.vars[t.id] = v
        elif isinstance(t, (ast.Tuple, ast.List)):
            items = self.unpack(v, len(t.elts))
            for tt, vv in zip(t.elts, items):
                self.assign(tt, vv, env)
        elif isinstance(t, ast.Attribute):
            obj = self.eval(t.value, env)
            if not isinstance(obj, VObj):
                raise Undecided(f"attribute assignment on {obj}")
            self.lib.setattr(self, obj, t.attr, v)
        elif isinstance(t, ast.Subscript):
            obj = self.eval(t.value, env)
            key = self.eval(t.slice, env)
            self.lib.setitem(self, obj, key, v)
        else:
            raise Undecided(f"unsupported assignment target {type(t).__name__}")

    def unpack(self, v, n):
        if isinstance(v, VTuple):
            items = list(v.items)
        elif isinstance(v, VList) and all(z3.is_true(g) for g in v.guards):
            items = list(v.items)
        else:
            raise Undecided(f"cannot unpack {v}")
        if len(items) != n:
            raise PyRaise(mkexc("ValueError"))
        return items

    def x_Return(self, s, env):
        raise ReturnSig(self.eval(s.value, env) if s.value is not None else NONE)

    def x_Break(self, s, env):
        raise BreakSig()

    def x_Continue(self, s, env):
        raise ContinueSig()

    def x_If(self, s, env):
        if self.ctx.branch(self.truth(self.eval(s.test, env))):
            self.exec_block(s.body, env)
        else:
            self.exec_block(s.orelse, env)

    def x_Assert(self, s, env):
        if not self.ctx.branch(self.truth(self.eval(s.test, env))):
            raise PyRaise(mkexc("AssertionError"))

    def x_FunctionDef(self, s, env):
        env.vars[s.name] = VFunc(s, env, s.name)

    def x_Raise(self, s, env):
        if s.exc is None:
            if not self.active_exc:
                raise PyRaise(mkexc("RuntimeError"))
            raise PyRaise(self.active_exc[-1])
        v = self.eval(s.exc, env)
        if isinstance(v, VExt):  # raise ValueError  (class, no call)
            v = mkexc(v.name)
        if not (isinstance(v, VObj) and v.f.get("_is_exc", True) and v.cls in EXC_PARENT):
            raise Undecided(f"raise of non-exception {v}")
        if s.cause is not None:
            self.eval(s.cause, env)
        raise PyRaise(v)

    def x_Try(self, s, env):
        pending = None
        try:
            self._try_core(s, env)
        except (PyRaise, ReturnSig, BreakSig, ContinueSig) as sig:
            pending = sig
        if s.finalbody:
            self.exec_block(s.finalbody, env)  # an exception raised here replaces `pending`
        if pending is not None:
            raise pending

    def _try_core(self, s, env):
        try:
            self.exec_block(s.body, env)
        except PyRaise as pr:
            for h in s.handlers:
                if self.handler_matches(h, pr.exc, env):
                    if h.name:
                        env.vars[h.name] = pr.exc
                    self.active_exc.append(pr.exc)
                    try:
                        self.exec_block(h.body, env)
                    finally:
                        self.active_exc.pop()
                    return
            raise
        self.exec_block(s.orelse, env)

    def handler_matches(self, h, exc, env):
        if h.type is None:
            return True
        t = self.eval(h.type, env)
        names = [x.name for x in t.items] if isinstance(t, VTuple) else [t.name]
        return any(is_subclass(exc.cls, _excname(n)) for n in names)

    def x_With(self, s, env):
        if len(s.items) != 1:
            raise Undecided("with-statement with several items")
        item = s.items[0]
        mgr = self.eval(item.context_expr, env)
        val = self.lib.enter(self, mgr)
        if item.optional_vars is not None:
            self.assign(item.optional_vars, val, env)
        try:
            self.exec_block(s.body, env)
        except PyRaise:
            self.lib.exit(self, mgr, True)
            raise
        except (ReturnSig, BreakSig, ContinueSig):
            self.lib.exit(self, mgr, False)
            raise
        else:
            self.lib.exit(self, mgr, False)

    def x_While(self, s, env):
        self.lib.while_loop(self, s, env)

    def x_For(self, s, env):
        it = self.eval(s.iter, env)
        self.lib.for_loop(self, s, it, env)

    def x_Delete(self, s, env):
        raise Undecided("del statement")

    def x_ClassDef(self, s, env):
        raise Undecided("nested class")

    # ------------------------------------------------------------------------------------------
    # expressions
    # ------------------------------------------------------------------------------------------
    def eval(self, e, env):
        m = getattr(self, "e_" + type(e).__name__, None)
        if m is None:
            raise Undecided(f"unsupported expression {type(e).__name__} at line {e.lineno}")
        return m(e, env)

    def e_Constant(self, e, env):
        v = e.value
        if v is None:
            return NONE
        if isinstance(v, bool):
            return VBool(v)
        if isinstance(v, int):
            return VInt(v)
        if isinstance(v, str):
            return VStr(v)
        if isinstance(v, bytes):
            return VBytes(v.decode("latin1"))
        raise Undecided(f"constant {v!r}")

    def e_Name(self, e, env):
        try:
            return env.lookup(e.id)
        except KeyError:
            pass
        if e.id in self.eng.funcs and "." not in e.id:
            return VFunc(self.eng.funcs[e.id], None, e.id)
        if e.id in REPO_CLASSES or e.id in self.eng.classes:
            return VExt("class:" + e.id)
        if e.id in EXC_PARENT:
            return VExt(e.id)
        if e.id in EXT_ROOTS:
            return VExt(e.id)
        if e.id in self.eng.module_consts:
            # a module-level constant: its defining expression is evaluated at the use (sound for
            # immutable values; a mutable module-level object would carry state between calls)
            v = self.eval(self.eng.module_consts[e.id], Env())
            if isinstance(v, (VDict,)) or (isinstance(v, VList) and v.kind != "frozenset"):
                raise Undecided(f"mutable module-level object {e.id}")
            return v
        if e.id in self.eng.import_from:
            full = self.eng.import_from[e.id]
            if full in EXT_CONSTS:
                return VStr(EXT_CONSTS[full])
            if full.split(".")[0] in ("string", "unicodedata", "functools", "os", "shutil"):
                return VExt(full)
        import builtins
        if hasattr(builtins, e.id) or e.id in self.eng.imported:
            # a builtin / imported module the engine may or may not have a model for (a call of an
            # unmodelled one is undecided, never a NameError)
            return VExt(e.id)
        raise PyRaise(mkexc("NameError"))

    def e_JoinedStr(self, e, env):
        if all(isinstance(v, ast.Constant) and isinstance(v.value, str) for v in e.values):
            return VStr("".join(v.value for v in e.values))
        # an f-string made of literal text and plain {name} fields of string variables is a
        # concatenation; anything else (conversions, format specs, non-strings) is a message
        parts = []
        for v in e.values:
            if isinstance(v, ast.Constant) and isinstance(v.value, str):
                parts.append(z3.StringVal(v.value))
            elif isinstance(v, ast.FormattedValue) and v.conversion == -1 and v.format_spec is None \
                    and isinstance(v.value, ast.Name):
                try:
                    val = env.lookup(v.value.id)
                except KeyError:
                    return VOpaque("f-string")
                if not isinstance(val, VStr):
                    return VOpaque("f-string")
                parts.append(val.term)
            else:
                return VOpaque("f-string")
        return VStr(z3.Concat(*parts) if len(parts) > 1 else parts[0])

    def e_Attribute(self, e, env):
        obj = self.eval(e.value, env)
        return self.lib.getattr(self, obj, e.attr)

    def e_Tuple(self, e, env):
        return VTuple(self.eval_elts(e.elts, env))

    def e_List(self, e, env):
        return VList(self.eval_elts(e.elts, env))

    def e_Set(self, e, env):
        return self.lib.make_set(self, VList(self.eval_elts(e.elts, env)))

    def eval_elts(self, elts, env):
        out = []
        for x in elts:
            if isinstance(x, ast.Starred):
                out.extend(self.lib.iter_concrete(self, self.eval(x.value, env)))
            else:
                out.append(self.eval(x, env))
        return out

    def e_Dict(self, e, env):
        ents = []
        for k, v in zip(e.keys, e.values):
            if k is None:
                raise Undecided("dict unpacking")
            ents.append([z3.BoolVal(True), self.eval(k, env), self.eval(v, env)])
        return VDict(ents)

    def e_IfExp(self, e, env):
        if self.ctx.branch(self.truth(self.eval(e.test, env))):
            return self.eval(e.body, env)
        return self.eval(e.orelse, env)

    def e_UnaryOp(self, e, env):
        v = self.eval(e.operand, env)
        if isinstance(e.op, ast.Not):
            return VBool(z3.Not(self.truth(v)))
        if isinstance(e.op, ast.USub):
            return VInt(-self.lib.as_int(self, v).term)
        raise Undecided("unary op")

    def e_BoolOp(self, e, env):
        is_or = isinstance(e.op, ast.Or)
        if self.ctx.pure:
            # inside a schema body (branch-free evaluation): both operands are evaluated and
            # combined; sound for operands that cannot raise, which pure mode already demands
            ts = [self.truth(self.eval(sub, env)) for sub in e.values]
            return VBool(z3.Or(*ts) if is_or else z3.And(*ts))
        v = None
        for i, sub in enumerate(e.values):
            v = self.eval(sub, env)
            if i == len(e.values) - 1:
                return v
            t = self.ctx.branch(self.truth(v))
            if t == is_or:
                return v
        return v

    def e_BinOp(self, e, env):
        return self.binop(e.op, self.eval(e.left, env), self.eval(e.right, env))

    def binop(self, op, a, b):
        return self.lib.binop(self, op, a, b)

    def e_Compare(self, e, env):
        left = self.eval(e.left, env)
        res = None
        for i, (op, rhs) in enumerate(zip(e.ops, e.comparators)):
            right = self.eval(rhs, env)
            r = self.lib.compare(self, op, left, right)
            if len(e.ops) == 1:
                return VBool(r)
            res = r if res is None else z3.And(res, r)
            left = right
        return VBool(res)

    def e_Subscript(self, e, env):
        obj = self.eval(e.value, env)
        if isinstance(e.slice, ast.Slice):
            lo = self.eval(e.slice.lower, env) if e.slice.lower is not None else None
            hi = self.eval(e.slice.upper, env) if e.slice.upper is not None else None
            if e.slice.step is not None:
                raise Undecided("slice step")
            return self.lib.slice(self, obj, lo, hi)
        return self.lib.getitem(self, obj, self.eval(e.slice, env))

    def e_Starred(self, e, env):
        raise Undecided("starred outside call/list")

    def e_Lambda(self, e, env):
        raise Undecided("lambda")

    def e_ListComp(self, e, env):
        return self.lib.comprehension(self, e, env, "list")

    def e_GeneratorExp(self, e, env):
        return VObj("genexp", node=e, env=env)

    def e_SetComp(self, e, env):
        return self.lib.make_set(self, self.lib.comprehension(self, e, env, "list"))

    def e_DictComp(self, e, env):
        if len(e.generators) != 1:
            raise Undecided("nested dict comprehension")
        gen = e.generators[0]
        src = self.eval(gen.iter, env)
        items = self.lib.iter_concrete(self, src) if not isinstance(src, VObj) else None
        if items is None and isinstance(src, VObj) and src.cls == "zip":
            items = [VTuple([a, b]) for a, b in zip(src.f["a"].items, src.f["b"].items)]
        if items is None:
            raise Undecided("dict comprehension over a symbolic iterable")
        ents = []
        for x in items:
            sub = Env(env)
            self.assign(gen.target, x, sub)
            if all(self.ctx.branch(self.truth(self.eval(c, sub))) for c in gen.ifs):
                ents.append([z3.BoolVal(True), self.eval(e.key, sub), self.eval(e.value, sub)])
        return VDict(ents)

    def e_Call(self, e, env):
        # logging calls are dropped without evaluating their arguments (DESIGN §2.1)
        dn = _dotted(e.func)
        if dn is not None:
            if dn.startswith("self.fhs_logger.") or dn.startswith("logging.") \
                    or dn.startswith("self.logger."):
                if dn.endswith(".getLogger") or dn.endswith(".basicConfig"):
                    return VObj("logger")
                return NONE
        f = self.eval(e.func, env)
        args = []
        for a in e.args:
            if isinstance(a, ast.Starred):
                args.extend(self.lib.iter_concrete(self, self.eval(a.value, env), star=True))
            else:
                args.append(self.eval(a, env))
        kwargs = {}
        for k in e.keywords:
            if k.arg is None:
                d = self.eval(k.value, env)
                # **mapping: a dict literal / dict built on this path with literal string keys
                if not (isinstance(d, VDict) and not getattr(d, "symbolic", False)):
                    raise Undecided("**kwargs call")
                for g, kk, vv in d.entries:
                    key = kk.concrete() if isinstance(kk, VStr) else None
                    if key is None or not z3.is_true(z3.simplify(g)):
                        raise Undecided("**kwargs call with a symbolic key")
                    kwargs[key] = vv
                continue
            kwargs[k.arg] = self.eval(k.value, env)
        return self.call(f, args, kwargs)

    def call(self, f, args, kwargs):
        if isinstance(f, VFunc):
            if f.closure is None and f.qualname in self.eng.funcs:
                return self.call_repo(f.qualname, args, kwargs)
            return self.run_body(f.qualname, args, kwargs, closure=f.closure, node=f.node)
        if isinstance(f, VBound):
            obj = f.obj
            if isinstance(obj, VObj) and obj.cls in self.eng.classes:
                q = f"{obj.cls}.{f.name}"
                if q in self.eng.funcs:
                    node = self.eng.funcs[q]
                    if _is_static(node):
                        return self.call_repo(q, args, kwargs)
                    return self.call_repo(q, [obj] + args, kwargs)
            return self.lib.method(self, obj, f.name, args, kwargs)
        if isinstance(f, VExt):
            if f.name.startswith("class:"):
                return self.lib.construct(self, f.name[6:], args, kwargs)
            if f.name in EXC_PARENT:
                return mkexc(f.name, args[0] if args else None)
            return self.lib.call(self, f.name, args, kwargs)
        raise Undecided(f"call of {f}")

    # ------------------------------------------------------------------------------------------
    def truth(self, v):
        return self.lib.truth(self, v)

    def raise_(self, cls, msg=None):
        e = mkexc(cls, msg)
        import os
        if os.environ.get("VC_DEBUG"):
            import traceback
            e.f["_origin"] = "".join(traceback.format_stack(limit=6)[:-1])
        raise PyRaise(e)


def _excname(n):
    return n[6:] if n.startswith("class:") else n


def _as_load(t):
    import copy
    t2 = copy.copy(t)
    t2.ctx = ast.Load()
    return t2


def _dotted(n):
    parts = []
    while isinstance(n, ast.Attribute):
        parts.append(n.attr)
        n = n.value
    if isinstance(n, ast.Name):
        parts.append(n.id)
        return ".".join(reversed(parts))
    return None


def _is_static(node):
    return any(isinstance(d, ast.Name) and d.id == "staticmethod" for d in node.decorator_list)


PLAIN_DECORATORS = {"staticmethod", "classmethod", "property", "abstractmethod", "abc.abstractmethod",
                    "contextmanager", "contextlib.contextmanager", "dataclass"}
MEMO_DECORATORS = {"functools.lru_cache", "lru_cache", "functools.cache", "cache",
                   "functools.cached_property", "cached_property"}


def _decorators(node, qualname):
    """True if the function is memoised; an unknown decorator may change the meaning of the
    function arbitrarily, so the run is undecided rather than silently ignoring it."""
    memo = False
    for d in getattr(node, "decorator_list", []):
        dn = _dotted(d.func if isinstance(d, ast.Call) else d)
        if dn in MEMO_DECORATORS:
            memo = True
        elif dn not in PLAIN_DECORATORS:
            raise Undecided(f"decorator {dn or ast.dump(d)[:40]} on {qualname} is not modelled")
    return memo


def _is_generator(node):
    for n in ast.walk(node):
        if isinstance(n, (ast.Yield, ast.YieldFrom)):
            # make sure it is not inside a nested def
            return _yield_in(node)
    return False


def _yield_in(fn):
    todo = list(fn.body)
    while todo:
        n = todo.pop()
        if isinstance(n, (ast.FunctionDef, ast.Lambda, ast.ClassDef)):
            continue
        if isinstance(n, (ast.Yield, ast.YieldFrom)):
            return True
        todo.extend(ast.iter_child_nodes(n))
    return False
