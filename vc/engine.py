"""Path-sensitive symbolic execution of real function bodies (ast) against sidecar contracts.

Forking is done by re-execution: a path is identified by its list of decisions; when a new branch
point with two feasible sides is met, one side is taken and the other is queued.
"""
import ast
import hashlib
import time
import z3
from . import sorts as T
from .values import *  # noqa

LOCK_CLASSES = ("objpid", "refpid", "cid", "doc")


class PyRaise(Exception):
    """An exception raised by the interpreted program."""

    def __init__(self, exc):
        super().__init__(exc.cls)
        self.exc = exc


class ReturnSig(Exception):
    def __init__(self, value):
        self.value = value


class BreakSig(Exception):
    pass


class ContinueSig(Exception):
    pass


class LemmaDone(Exception):
    """A side path that only discharges the obligations of a loop rule has finished."""


class PathPruned(Exception):
    """The current path turned out to be infeasible (an assumption contradicted the path)."""


def mkexc(cls, msg=None, **kw):
    return VObj(cls, msg=msg if msg is not None else VOpaque("msg"), **kw)


def _status(r):
    if r == z3.unsat:
        return "discharged"
    if r == z3.sat:
        return "refuted"
    return "unknown"


class Obligation:
    __slots__ = ("name", "status", "time", "detail", "path", "model", "backend", "site", "props")

    def __init__(self, name, status, t, detail="", path=None, model=None, backend="z3", site=None,
                 props=()):
        self.name, self.status, self.time, self.detail = name, status, t, detail
        self.path, self.model, self.backend, self.site, self.props = path, model, backend, site, props


class State:
    """The mutable abstract machine state of one path."""

    def __init__(self, tag=""):
        self.fs = z3.Const("FS" + tag, T.FSSort)
        self.dirs = z3.Const("DIRS" + tag, T.DirSort)
        self.own = {c: z3.Const(f"own_{c}{tag}", T.LockSort) for c in LOCK_CLASSES}
        self.env = {c: z3.Const(f"env_{c}{tag}", T.LockSort) for c in LOCK_CLASSES}
        self.events = []
        self.held = []      # [(class, key term)] acquisitions of the analysed call, in order
        self.ghost = {}

    def copy(self):
        s = State.__new__(State)
        s.fs, s.dirs = self.fs, self.dirs
        s.own, s.env = dict(self.own), dict(self.env)
        s.events = list(self.events)
        s.held = list(self.held)
        s.ghost = dict(self.ghost)
        return s


class PathCtx:
    """One execution path: solver, path condition, decisions, state."""

    def __init__(self, engine, decisions, timeout_ms=None):
        self.engine = engine
        self.decisions = list(decisions)
        self.cursor = 0
        self.facts = []
        self.ax = T.Axioms()
        self.pc = []
        self.st = State()
        self.counter = 0
        self.notes = []
        self.obligations = []
        self.pure = 0         # >0: forking is forbidden (evaluation of a schema body)
        self.fault_budget = 0
        self.monitors = []
        self.depth = 0
        self.cover = set()
        self.uncertain = False
        self.forks_seen = 0
        self.spec_mode = 0   # >0 while a contract (spec function) is being executed
        self.callstack = []

    # ---- symbols -------------------------------------------------------------------------
    def fresh(self, name, sort):
        self.counter += 1
        return z3.Const(f"{name}!{self.counter}", sort)

    def replaying(self):
        return self.cursor < len(self.decisions)

    # ---- assumptions -----------------------------------------------------------------------
    def assume(self, f):
        f = tob(f)
        self._axioms(f)
        self.facts.append(f)
        self.pc.append(f)

    def _axioms(self, f):
        for a in self.ax.visit(f):
            self.facts.append(a)

    def feasible(self, cond):
        """Feasibility of a branch side under a short budget.  `unknown` counts as feasible:
        that can only add paths (whose obligations are then checked like any other), never
        hide one."""
        self._axioms(cond)
        t0 = time.time()
        s = z3.Solver()
        s.set("timeout", self.engine.branch_timeout_ms)
        s.add(self.facts)
        s.add(cond)
        r = s.check()
        self.engine.solver_time += time.time() - t0
        self.engine.solver_calls += 1
        return r

    def solve(self, extra=(), want_model=False):
        """One satisfiability query on a fresh solver (z3's incremental mode is unreliable on
        string constraints: it hangs past its timeout on queries a fresh solver decides at once).
        `unknown` is retried with other seeds."""
        for e in extra:
            self._axioms(e)
        t0 = time.time()
        res, model = z3.unknown, None
        tries = ((self.engine.timeout_ms // 4, 0), (self.engine.timeout_ms // 2, 7),
                 (self.engine.timeout_ms, 13))
        for to, seed in tries:
            s = z3.Solver()
            s.set("timeout", max(1000, to))
            s.set("random_seed", seed + self.engine.seed)
            s.add(self.facts)
            s.add(*extra)
            res = s.check()
            if res != z3.unknown:
                if res == z3.sat and want_model:
                    try:
                        model = s.model()
                    except z3.Z3Exception:
                        model = None
                break
            self.engine.retries += 1
        self.engine.solver_time += time.time() - t0
        self.engine.solver_calls += 1
        return res, model

    def check(self, *assumptions):
        return self.solve(assumptions)[0]

    # ---- branching -------------------------------------------------------------------------
    def branch(self, cond):
        """Decide a boolean condition, forking when both sides are feasible."""
        cond = tob(cond)
        c = z3.simplify(cond)
        if z3.is_true(c):
            return True
        if z3.is_false(c):
            return False
        return self.choose([c, z3.Not(c)]) == 0

    def choose(self, conds, labels=None):
        """Multi-way decision among mutually exclusive, jointly exhaustive conditions."""
        if self.pure:
            raise Undecided("fork inside a schema body that must be branch-free: "
                            + str(conds[0])[:80])
        if self.cursor < len(self.decisions):
            k = self.decisions[self.cursor]
            self.cursor += 1
            if k >= 100:            # a genuine two-way fork
                k -= 100
                self.forks_seen += 1
            self.assume(conds[k])
            return k
        feas = []
        for k, c in enumerate(conds):
            if len(conds) == 2 and k == 1 and not feas:
                feas.append(k)      # the path condition is satisfiable, so the other side is
                break
            r = self.feasible(c)
            if r == z3.sat:
                feas.append(k)
            elif r == z3.unknown:
                feas.append(k)
                self.uncertain = True
                self.engine.unknown_branches += 1
        if not feas:
            raise PathPruned()
        genuine = len(feas) == 2 and len(conds) == 2
        sh = self.engine.shard
        if genuine:
            n_fork = self.forks_seen
            self.forks_seen += 1
            if sh is not None and sh[2] <= n_fork < sh[2] + sh[1]:
                # sharded exploration: this job only follows its own side of this fork
                bit = (sh[0] >> (n_fork - sh[2])) & 1
                k = feas[bit]
                self.decisions.append(k + 100)
                self.cursor += 1
                self.assume(conds[k])
                return k
            k = feas[0]
            self.engine.queue(self.decisions[:self.cursor] + [feas[1] + 100])
            self.decisions.append(k + 100)
            self.cursor += 1
            self.assume(conds[k])
            return k
        k = feas[0]
        for alt in feas[1:]:
            self.engine.queue(self.decisions[:self.cursor] + [alt])
        self.decisions.append(k)
        self.cursor += 1
        self.assume(conds[k])
        return k

    def fork(self, n):
        """n-way split into always-feasible alternatives (loop rules: lemma paths / main path)."""
        if self.cursor < len(self.decisions):
            k = self.decisions[self.cursor]
            self.cursor += 1
            return k
        for alt in range(1, n):
            self.engine.queue(self.decisions[:self.cursor] + [alt])
        self.decisions.append(0)
        self.cursor += 1
        return 0

    def implied(self, f):
        """Is f implied by the path condition? (definite answers only)"""
        f = tob(f)
        s = z3.simplify(f)
        if z3.is_true(s):
            return True
        if z3.is_false(s):
            return False
        return self.check(z3.Not(f)) == z3.unsat

    # ---- facts quantified over all locations ------------------------------------------------
    def assume_forall_loc(self, fn):
        """Assume  forall x: Loc. fn(x).  Instantiated at every location term the path touches
        and at the Skolem locations of later obligations (kept quantifier-free)."""
        self.__dict__.setdefault("forall_locs", []).append(fn)
        for loc in list(self.__dict__.get("_typed", {}).values()):
            self.assume(fn(loc))

    def skolem_loc(self, name="anyloc"):
        x = self.fresh(name, T.Loc)
        self.assume(z3.And(T.l_marks(x) >= 0, T.l_kind(x) >= 0, T.l_kind(x) <= T.K_EXT))
        for fn in self.__dict__.get("forall_locs", []):
            self.assume(fn(x))
        return x

    def oblige_forall_loc(self, name, fn, **kw):
        x = self.skolem_loc()
        return self.oblige(name, fn(x), **kw)

    # ---- obligations -----------------------------------------------------------------------
    def oblige(self, name, formula, site=None, detail="", props=()):
        """Record the proof obligation  pc ==> formula."""
        if self.replaying() or self.spec_mode:
            return
        formula = tob(formula)
        t0 = time.time()
        if z3.is_true(z3.simplify(formula)):
            r, model = z3.unsat, None       # trivially valid: no solver call
        else:
            r, model = self.solve([z3.Not(formula)], want_model=True)
        dt = time.time() - t0
        status = _status(r)
        ms = self.engine.model_summary(self, model) if model is not None else None
        if ms is not None and self.__dict__.get("approx_ops"):
            ms["__approximated__"] = sorted(set(self.approx_ops))
        ob = Obligation(name, status, dt, detail, list(self.decisions[:self.cursor]), ms,
                        site=site, props=tuple(props))
        self.engine.record(ob)
        return status

    def fail(self, name, detail, site=None, props=()):
        """An obligation that is violated on this (feasible) path by construction."""
        if self.replaying() or self.spec_mode:
            return
        r, model = self.solve([], want_model=True)
        status = _status(r)
        self.engine.record(Obligation(name, status, 0.0, detail, list(self.decisions[:self.cursor]),
                                      self.engine.model_summary(self, model) if model else None,
                                      site=site, props=tuple(props)))

    def event(self, kind, **kw):
        ev = dict(kind=kind, held=list(self.st.held), **kw)
        self.st.events.append(ev)
        for m in self.monitors:
            m(self, ev)
        return ev


class Engine:
    def __init__(self, sources, timeout_ms=20000, seed=0):
        self.timeout_ms = timeout_ms
        self.seed = seed
        self.modules = {}
        self.funcs = {}     # qualname -> FunctionDef
        self.imported = set()   # names bound by module-level imports (external unless modelled)
        self.import_from = {}   # name -> "module.attr" for `from module import attr`
        self.module_consts = {}  # module-level  NAME = <expr>  (evaluated at each use; see interp)
        self.classes = {}   # class name -> ClassDef
        self.class_attrs = {}
        self.src_hash = {}
        for modname, path in sources.items():
            with open(path, "r", encoding="utf-8") as fh:
                src = fh.read()
            tree = ast.parse(src, filename=path)
            self.modules[modname] = tree
            self._index(tree, modname)
        self.contracts = {}
        self.established = {}
        self.pending = []
        self.results = []
        self.solver_time = 0.0
        self.solver_calls = 0
        self.unknown_branches = 0
        self.shard = None        # (index, bits, skip): follow one side of forks skip..skip+bits-1
        self.branch_timeout_ms = 1500
        self.retries = 0
        self.paths = 0
        self.current = None
        self.inlined = set()
        self.model_hook = None
        self.cvc5_used = 0

    def _index(self, tree, modname):
        for node in tree.body:
            if isinstance(node, ast.Import):
                for al in node.names:
                    self.imported.add((al.asname or al.name).split(".")[0])
            elif isinstance(node, ast.ImportFrom):
                for al in node.names:
                    self.imported.add(al.asname or al.name)
                    if node.module and node.level == 0:
                        self.import_from[al.asname or al.name] = f"{node.module}.{al.name}"
            elif isinstance(node, ast.Assign) and len(node.targets) == 1 and \
                    isinstance(node.targets[0], ast.Name):
                self.module_consts[node.targets[0].id] = node.value
            if isinstance(node, ast.FunctionDef):
                self.funcs[node.name] = node
                self._fingerprint(node.name, node)
            elif isinstance(node, ast.ClassDef):
                self.classes[node.name] = node
                attrs = {}
                for sub in node.body:
                    if isinstance(sub, ast.FunctionDef):
                        q = f"{node.name}.{sub.name}"
                        self.funcs[q] = sub
                        self._fingerprint(q, sub)
                    elif isinstance(sub, ast.Assign) and len(sub.targets) == 1 and \
                            isinstance(sub.targets[0], ast.Name):
                        attrs[sub.targets[0].id] = sub.value
                self.class_attrs[node.name] = attrs

    def _fingerprint(self, q, node):
        self.src_hash[q] = hashlib.sha256(ast.dump(node).encode()).hexdigest()[:16]

    def queue(self, decisions):
        self.pending.append(list(decisions))

    def record(self, ob):
        ob.site = ob.site or self.current
        self.results.append(ob)

    def second_opinion(self, solver):
        return None

    def model_summary(self, ctx, model):
        """The values the solver's counter-model gives to the symbolic inputs (best effort)."""
        out = {}
        try:
            for d in model.decls():
                if d.arity() != 0:
                    continue
                n = d.name()
                if "!" in n and n.split("!")[-1].isdigit():
                    continue     # fresh engine symbols
                v = model[d]
                if z3.is_string_value(v):
                    out[n] = T.zstr(v)
                elif z3.is_int_value(v):
                    out[n] = v.as_long()
                elif z3.is_true(v) or z3.is_false(v):
                    out[n] = z3.is_true(v)
        except Exception as e:
            out["error"] = repr(e)
        return out

    # ---- exploring all paths of a job -------------------------------------------------------
    def explore(self, job, name, max_paths=4000):
        """job(ctx) runs one path.  Returns the list of finished path summaries."""
        self.current = name
        self.pending = [[]]
        done = []
        n = 0
        while self.pending:
            decisions = self.pending.pop()
            ctx = PathCtx(self, decisions)
            n += 1
            if n > max_paths:
                raise Undecided(f"{name}: more than {max_paths} paths")
            mark = len(self.results)
            try:
                summary = job(ctx)
            except (PathPruned, LemmaDone):
                summary = None
                ended = False
            else:
                ended = True
            sh = self.shard
            done_bits = max(0, min(sh[1], ctx.forks_seen - sh[2])) if sh is not None else 0
            if sh is not None and done_bits < sh[1] and (sh[0] >> done_bits) != 0:
                # a path with fewer forks than shard bits belongs to the shard whose remaining
                # bits are zero; the other shards drop their duplicate of it
                del self.results[mark:]
                continue
            if not ended:
                continue
            self.paths += 1
            if summary is not None:
                done.append(summary)
        return done
